package main

// Assumption audit (not a proof): the trusted contracts of package strings
// are compiled to Go (gopost.go) and evaluated against the real library on
// random inputs. A contract clause that the real function violates would make
// every proof that uses it unsound, so this is run from bin/audit-stdlib after
// any change to contracts/stdlib/strings.spec. Clauses outside the executable
// subset are listed as "not audited".

import (
	"fmt"
	"os"
	"os/exec"
	"path/filepath"
	"sort"
	"strings"
)

type auditFn struct {
	key    string   // strings.Index
	params []string // go types, in order
	call   string   // Go call using p0, p1, ...
	res    []string // result types
}

var auditTable = []auditFn{
	{"strings.Index", []string{"string", "string"}, "strings.Index(p0, p1)", []string{"int"}},
	{"strings.LastIndex", []string{"string", "string"}, "strings.LastIndex(p0, p1)", []string{"int"}},
	{"strings.HasPrefix", []string{"string", "string"}, "strings.HasPrefix(p0, p1)", []string{"bool"}},
	{"strings.HasSuffix", []string{"string", "string"}, "strings.HasSuffix(p0, p1)", []string{"bool"}},
	{"strings.SplitN", []string{"string", "string", "int2"}, "strings.SplitN(p0, p1, p2)", []string{"[]string"}},
	{"strings.Split", []string{"string", "string"}, "strings.Split(p0, p1)", []string{"[]string"}},
	{"strings.Fields", []string{"string"}, "strings.Fields(p0)", []string{"[]string"}},
	{"strings.TrimSpace", []string{"string"}, "strings.TrimSpace(p0)", []string{"string"}},
	{"strings.Contains", []string{"string", "string"}, "strings.Contains(p0, p1)", []string{"bool"}},
	{"strings.ContainsAny", []string{"string", "string"}, "strings.ContainsAny(p0, p1)", []string{"bool"}},
	{"strings.IndexAny", []string{"string", "string"}, "strings.IndexAny(p0, p1)", []string{"int"}},
	{"strings.IndexByte", []string{"string", "byteint"}, "strings.IndexByte(p0, byte(p1))", []string{"int"}},
	{"strings.LastIndexByte", []string{"string", "byteint"}, "strings.LastIndexByte(p0, byte(p1))", []string{"int"}},
	{"strings.TrimPrefix", []string{"string", "string"}, "strings.TrimPrefix(p0, p1)", []string{"string"}},
	{"strings.TrimSuffix", []string{"string", "string"}, "strings.TrimSuffix(p0, p1)", []string{"string"}},
	{"strings.Count", []string{"string", "string"}, "strings.Count(p0, p1)", []string{"int"}},
	{"strings.Cut", []string{"string", "string"}, "strings.Cut(p0, p1)", []string{"string", "string", "bool"}},
	{"strings.Join", []string{"[]string", "string"}, "strings.Join(p0, p1)", []string{"string"}},
}

func runAudit(verif string) int {
	specFiles, _ := filepath.Glob(filepath.Join(verif, "contracts", "stdlib", "*.spec"))
	sort.Strings(specFiles)
	db := NewSpecDB()
	for _, f := range specFiles {
		if err := db.LoadSpecFile(f, true); err != nil {
			fmt.Fprintf(os.Stderr, "audit: %v\n", err)
			return 2
		}
	}
	ex := &Exec{V: &Verifier{db: db}}
	var src strings.Builder
	src.WriteString("package audit\n\nimport (\n\t\"math/rand\"\n\t\"strings\"\n\t\"testing\"\n)\n\nvar _ = strings.Index\n")
	src.WriteString(goPostHelpers)
	src.WriteString(`
var alphabet = []byte(" :!@ab\t\n\\\x01\xc3\xa9-")

func rstr(r *rand.Rand) string {
	n := r.Intn(9)
	b := make([]byte, n)
	for i := range b {
		b[i] = alphabet[r.Intn(len(alphabet))]
	}
	return string(b)
}
func rsep(r *rand.Rand) string {
	switch r.Intn(6) {
	case 0:
		return " "
	case 1:
		return " :"
	case 2:
		return "!"
	case 3:
		return ""
	}
	return rstr(r)
}
func rstrs(r *rand.Rand) []string {
	n := r.Intn(4)
	out := make([]string, n)
	for i := range out {
		out[i] = rstr(r)
	}
	return out
}
`)
	audited, skipped := 0, 0
	var notes []string
	for _, af := range auditTable {
		fs := db.Funcs[af.key]
		if fs == nil {
			notes = append(notes, af.key+": no contract")
			continue
		}
		names := []string{}
		for _, p := range fs.Params {
			names = append(names, p.Name)
		}
		if len(names) != len(af.params) {
			notes = append(notes, fmt.Sprintf("%s: contract names %d parameters, table has %d", af.key, len(names), len(af.params)))
			continue
		}
		var checks []string
		for ci, cl := range fs.Clauses {
			if cl.Kind != "ensures" || cl.Expr == nil {
				continue
			}
			g := &goComp{ex: ex, vars: map[string]string{}, strs: map[string]bool{}}
			for i, pt := range af.params {
				if pt == "[]string" {
					g.strs[fmt.Sprintf("p%d", i)] = true
				}
			}
			for i, rt := range af.res {
				if rt == "[]string" {
					g.strs[fmt.Sprintf("r%d", i)] = true
				}
			}
			for i, n := range names {
				g.vars[n] = fmt.Sprintf("p%d", i)
				g.vars["old:"+n] = fmt.Sprintf("p%d", i)
			}
			for i := range af.res {
				g.vars[fmt.Sprintf("result%d", i)] = fmt.Sprintf("r%d", i)
			}
			if len(af.res) == 1 {
				g.vars["result"] = "r0"
			}
			for i, r := range fs.Results {
				if i < len(af.res) {
					g.vars[r.Name] = fmt.Sprintf("r%d", i)
				}
			}
			code := g.comp(cl.Expr)
			if g.fail != "" {
				skipped++
				notes = append(notes, fmt.Sprintf("%s ensures #%d not audited: %s", af.key, ci, g.fail))
				continue
			}
			audited++
			checks = append(checks, fmt.Sprintf("\t\tif !(%s) {\n\t\t\tt.Fatalf(\"%s: clause %d violated for %%q\", []interface{}{%s})\n\t\t}\n", code, af.key, ci, argList(len(af.params))))
		}
		if len(checks) == 0 {
			continue
		}
		fmt.Fprintf(&src, "\nfunc TestAudit_%s(t *testing.T) {\n\tr := rand.New(rand.NewSource(1))\n\tfor it := 0; it < 3000; it++ {\n", sanitizeGo(af.key))
		for i, pt := range af.params {
			switch pt {
			case "string":
				if i == 0 {
					fmt.Fprintf(&src, "\t\tp%d := rstr(r)\n", i)
				} else {
					fmt.Fprintf(&src, "\t\tp%d := rsep(r)\n", i)
				}
			case "[]string":
				fmt.Fprintf(&src, "\t\tp%d := rstrs(r)\n", i)
			case "int2":
				fmt.Fprintf(&src, "\t\tp%d := 2\n", i)
			case "byteint":
				fmt.Fprintf(&src, "\t\tp%d := int(alphabet[r.Intn(len(alphabet))])\n", i)
			}
		}
		var rs []string
		for i := range af.res {
			rs = append(rs, fmt.Sprintf("r%d", i))
		}
		fmt.Fprintf(&src, "\t\t%s := %s\n", strings.Join(rs, ", "), af.call)
		for _, r := range rs {
			fmt.Fprintf(&src, "\t\t_ = %s\n", r)
		}
		for _, c := range checks {
			src.WriteString(c)
		}
		src.WriteString("\t}\n}\n")
	}
	dir, err := os.MkdirTemp(scratchDir, "audit")
	if err != nil {
		fmt.Fprintln(os.Stderr, err)
		return 2
	}
	defer os.RemoveAll(dir)
	os.WriteFile(filepath.Join(dir, "go.mod"), []byte("module audit\n\ngo 1.21\n"), 0o644)
	os.WriteFile(filepath.Join(dir, "audit_test.go"), []byte(src.String()), 0o644)
	cmd := exec.Command("go", "test", "-vet=off", "-count=1", "-timeout", "300s", "./...")
	cmd.Dir = dir
	cmd.Env = append(os.Environ(), "GOFLAGS=-mod=mod", "GOPROXY=off", "GOSUMDB=off", "GOTOOLCHAIN=local")
	out, err := cmd.CombinedOutput()
	for _, n := range notes {
		fmt.Println("note:", n)
	}
	fmt.Printf("audit: %d clauses of %d functions evaluated on 3000 random inputs each; %d clauses not in the executable subset\n", audited, len(auditTable), skipped)
	if err != nil {
		fmt.Println(truncate(string(out), 6000))
		if os.Getenv("VERIF_KEEP_AUDIT") != "" {
			os.WriteFile("/var/tmp/audit_test.go", []byte(src.String()), 0o644)
		}
		fmt.Println("AUDIT-FAILED")
		return 1
	}
	fmt.Println("AUDIT-OK")
	return 0
}

func argList(n int) string {
	var as []string
	for i := 0; i < n; i++ {
		as = append(as, fmt.Sprintf("p%d", i))
	}
	return strings.Join(as, ", ")
}
