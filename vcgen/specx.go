package main

// Translation of contract-language expressions into SMT terms, in a given
// program state (current / old) and name environment.

import (
	"fmt"
	"go/constant"
	"go/token"
	"go/types"
	"strings"

	"golang.org/x/tools/go/ssa"
)

type Env struct {
	ex     *Exec
	st     *State
	old    *State
	vars   map[string]Val
	callee bool
	entry  bool
	inOld  bool
	li     *loopInfo
	pkg    *types.Package
	spec   *FuncSpec
	depth  int
	cellSt *State // inside old(...): locals keep their current values, only the heap is old
}

func (e *Env) pkgOr(p *types.Package) *types.Package {
	if e.pkg != nil {
		return e.pkg
	}
	return p
}

func (e *Env) with(name string, v Val) *Env {
	n := *e
	n.vars = map[string]Val{}
	for k, x := range e.vars {
		n.vars[k] = x
	}
	n.vars[name] = v
	return &n
}

func (ex *Exec) envAt(st *State, li *loopInfo) *Env {
	return &Env{ex: ex, st: st, old: ex.init, vars: map[string]Val{}, li: li, pkg: ex.pkg, spec: ex.spec}
}

type specError string

func (ex *Exec) specFail(format string, a ...interface{}) {
	panic("spec:" + fmt.Sprintf(format, a...))
}

// evalSpec evaluates e; contract errors abort the whole function (they are
// reported as a broken contract, never as a silently vacuous clause).
func (ex *Exec) evalSpec(e SExpr, env *Env) Val {
	return ex.ev(e, env)
}

func (ex *Exec) evBool(e SExpr, env *Env) *Term {
	v := ex.ev(e, env)
	if v.T == nil || v.T.S != SBool {
		ex.specFail("expected boolean, got %v in %v", v, show(e))
	}
	return v.T
}

func (ex *Exec) evInt(e SExpr, env *Env) *Term {
	v := ex.ev(e, env)
	if v.T == nil || v.T.S != SInt {
		ex.specFail("expected integer, got %v in %v", v, show(e))
	}
	return v.T
}

func show(e SExpr) string {
	switch x := e.(type) {
	case *SIdent:
		return x.Name
	case *SIntLit:
		return x.Val
	case *SStrLit:
		return fmt.Sprintf("%q", x.Val)
	case *SCharLit:
		return fmt.Sprintf("%d", x.Val)
	case *SBoolLit:
		return fmt.Sprint(x.Val)
	case *SNil:
		return "nil"
	case *SUnary:
		return x.Op + show(x.X)
	case *SBinary:
		return "(" + show(x.X) + " " + x.Op + " " + show(x.Y) + ")"
	case *SCond:
		return "(" + show(x.C) + " ? " + show(x.A) + " : " + show(x.B) + ")"
	case *SCall:
		var as []string
		for _, a := range x.Args {
			as = append(as, show(a))
		}
		return x.Fn + "(" + strings.Join(as, ", ") + ")"
	case *SIndex:
		return show(x.X) + "[" + show(x.I) + "]"
	case *SSliceE:
		lo, hi := "", ""
		if x.Lo != nil {
			lo = show(x.Lo)
		}
		if x.Hi != nil {
			hi = show(x.Hi)
		}
		return show(x.X) + "[" + lo + ":" + hi + "]"
	case *SSel:
		return show(x.X) + "." + x.Name
	case *SQuant:
		var vs []string
		for _, v := range x.Vars {
			vs = append(vs, v.Name+" "+v.Type)
		}
		return x.Kind + " " + strings.Join(vs, ", ") + " :: " + show(x.Body)
	case *SOld:
		return "old(" + show(x.X) + ")"
	case *SSeqLit:
		var as []string
		for _, a := range x.Elems {
			as = append(as, show(a))
		}
		return "[" + strings.Join(as, ", ") + "]"
	case *SLet:
		return "let " + x.Name + " := " + show(x.Val) + " in " + show(x.Body)
	}
	return fmt.Sprintf("%T", e)
}

func (ex *Exec) ghostHeapVal(name string, st *State) (Val, bool) {
	if ex.V.db.IsTrace(name) {
		return Val{T: ex.getHeap(st, name, ArrS(SInt, SEvent)), Ty: tyTrace}, true
	}
	if tr, ok := ex.V.db.IsTraceLen(name); ok {
		return Val{T: ex.getHeap(st, tr+"len", SInt), Ty: tyInt}, true
	}
	switch name {
	case "$nextref":
		return Val{T: ex.getHeap(st, "$nextref", SInt), Ty: tyInt}, true
	case "$seq":
		return Val{T: ex.getHeap(st, "$seq", SInt), Ty: tyInt}, true
	case "$typeof":
		return Val{T: ex.getHeap(st, "$typeof", ArrS(SInt, SInt)), Ty: tyIMap}, true
	case "$held":
		return Val{T: ex.getHeap(st, "$held", ArrS(SInt, SInt)), Ty: tyIMap}, true
	case "$wg":
		return Val{T: ex.getHeap(st, "$wg", ArrS(SInt, SInt)), Ty: tyIMap}, true
	case "$panicking":
		return Val{T: ex.getHeap(st, "$panicking", SBool), Ty: tyBool}, true
	}
	if tn, ok := ex.V.db.Ghosts[name]; ok {
		t := ex.V.specType(tn, ex.pkg)
		return Val{T: ex.getHeap(st, name, sortOf(t)), Ty: t}, true
	}
	return Val{}, false
}

var tyTrace = types.NewNamed(types.NewTypeName(0, nil, "trace", nil), types.NewStruct(nil, nil), nil)

func (ex *Exec) evIdent(name string, env *Env) Val {
	if v, ok := env.vars[name]; ok {
		return v
	}
	st := env.st
	if env.inOld {
		st = env.old
	}
	if strings.HasPrefix(name, "$") {
		if v, ok := ex.ghostHeapVal(name, st); ok {
			return v
		}
	}
	if !env.callee {
		if v, ok := ex.lets[name]; ok {
			return v
		}
		if v, ok := ex.ghosts[name]; ok {
			return v
		}
		if strings.HasPrefix(name, "#") {
			// #i: number of completed iterations of the enclosing range loop
			if env.li == nil {
				ex.specFail("%s used outside a loop", name)
			}
			for b := range env.li.blocks {
				for _, in := range b.Instrs {
					if a, ok := in.(*ssa.Alloc); ok && a.Comment == "rangeindex" {
						_ = a
					}
				}
			}
			if a := ex.rangeIndexOf(env.li); a != nil {
				if v, ok := st.cells[a]; ok {
					return Val{T: Add(v.T, IntLit(1)), Ty: tyInt}
				}
			}
			ex.specFail("no range index for loop")
		}
		if pv, ok := ex.params[name]; ok {
			if env.entry || env.inOld {
				return pv
			}
			if a, ok := ex.localName[name]; ok {
				if v, ok := st.cells[a]; ok {
					return v
				}
			}
			return pv
		}
		if a, ok := ex.localName[name]; ok {
			if v, ok := st.cells[a]; ok {
				return v
			}
			if env.cellSt != nil {
				if v, ok := env.cellSt.cells[a]; ok {
					return v
				}
			}
			// struct-typed local: its object reference
			if rv, ok := ex.vals[a]; ok && rv.T != nil {
				return Val{T: rv.T, Ty: a.Type()}
			}
			ex.specFail("local %s is not live here", name)
		}
	}
	// package-level names
	pkg := env.pkgOr(ex.pkg)
	if pkg != nil {
		if obj := pkg.Scope().Lookup(name); obj != nil {
			switch o := obj.(type) {
			case *types.Const:
				return ex.constToVal(o.Val(), o.Type())
			case *types.Var:
				s := sortOf(o.Type())
				return Val{T: ex.getHeap(st, "G."+pkg.Name()+"."+name, s), Ty: o.Type()}
			}
		}
	}
	ex.specFail("unknown name %q", name)
	return Val{}
}

func (ex *Exec) rangeIndexOf(li *loopInfo) *ssa.Alloc {
	// the rangeindex alloc is created in the predecessor of the header
	for _, p := range li.header.Preds {
		if li.blocks[p] {
			continue
		}
		for i := len(p.Instrs) - 1; i >= 0; i-- {
			if a, ok := p.Instrs[i].(*ssa.Alloc); ok && a.Comment == "rangeindex" {
				return a
			}
		}
	}
	return nil
}

func (ex *Exec) constToVal(v constant.Value, t types.Type) Val {
	switch v.Kind() {
	case constant.Bool:
		return Val{T: BoolLit(constant.BoolVal(v)), Ty: tyBool}
	case constant.String:
		return Val{T: ex.strLit(constant.StringVal(v)), Ty: tyStr}
	case constant.Int:
		return Val{T: BigLit(v.ExactString()), Ty: tyInt}
	}
	ex.specFail("unsupported constant %s", v)
	return Val{}
}

func (ex *Exec) ev(e SExpr, env *Env) Val {
	switch x := e.(type) {
	case *SIdent:
		return ex.evIdent(x.Name, env)
	case *SIntLit:
		return Val{T: BigLit(x.Val), Ty: tyInt}
	case *SCharLit:
		return Val{T: IntLit(x.Val), Ty: tyInt}
	case *SStrLit:
		return Val{T: ex.strLit(x.Val), Ty: tyStr}
	case *SBoolLit:
		return Val{T: BoolLit(x.Val), Ty: tyBool}
	case *SNil:
		return Val{T: IntLit(0), Ty: tyRef}
	case *SOld:
		n := *env
		n.inOld = true
		if n.cellSt == nil {
			n.cellSt = env.st
		}
		n.st = env.old
		return ex.ev(x.X, &n)
	case *SLet:
		v := ex.ev(x.Val, env)
		return ex.ev(x.Body, env.with(x.Name, v))
	case *SUnary:
		v := ex.ev(x.X, env)
		switch x.Op {
		case "!":
			return Val{T: Not(v.T), Ty: tyBool}
		case "-":
			return Val{T: Neg(v.T), Ty: tyInt}
		}
	case *SCond:
		c := ex.evBool(x.C, env)
		a := ex.ev(x.A, env)
		b := ex.ev(x.B, env)
		a, b = ex.unifyNil(a, b)
		return Val{T: Ite(c, a.T, b.T), Ty: a.Ty}
	case *SBinary:
		return ex.evBinary(x, env)
	case *SSel:
		return ex.evSel(x, env)
	case *SIndex:
		return ex.evIndex(x, env)
	case *SSliceE:
		return ex.evSlice(x, env)
	case *SQuant:
		return ex.evQuant(x, env)
	case *SCall:
		return ex.evCall(x, env)
	case *SSeqLit:
		arr := ex.V.constArr(ex, ArrS(SInt, SInt), IntLit(0))
		for i, el := range x.Elems {
			arr = Store(arr, IntLit(int64(i)), ex.evInt(el, env))
		}
		return Val{T: MkSeq(arr, IntLit(int64(len(x.Elems)))), Ty: tySeq}
	}
	ex.specFail("cannot evaluate %s", show(e))
	return Val{}
}

func (ex *Exec) unifyNil(a, b Val) (Val, Val) {
	if a.Ty == tyRef && b.T != nil && b.T.S == SSlice {
		a = Val{T: NilSlice, Ty: b.Ty}
	}
	if b.Ty == tyRef && a.T != nil && a.T.S == SSlice {
		b = Val{T: NilSlice, Ty: a.Ty}
	}
	if a.Ty == tyRef && b.Ty != tyRef {
		a.Ty = b.Ty
	}
	if b.Ty == tyRef && a.Ty != tyRef {
		b.Ty = a.Ty
	}
	return a, b
}

func (ex *Exec) evBinary(x *SBinary, env *Env) Val {
	switch x.Op {
	case "&&":
		return Val{T: And(ex.evBool(x.X, env), ex.evBool(x.Y, env)), Ty: tyBool}
	case "||":
		return Val{T: Or(ex.evBool(x.X, env), ex.evBool(x.Y, env)), Ty: tyBool}
	case "==>":
		return Val{T: Imp(ex.evBool(x.X, env), ex.evBool(x.Y, env)), Ty: tyBool}
	case "<==>":
		return Val{T: Eq(ex.evBool(x.X, env), ex.evBool(x.Y, env)), Ty: tyBool}
	}
	a := ex.ev(x.X, env)
	b := ex.ev(x.Y, env)
	if a.T == nil || b.T == nil {
		ex.specFail("operator %s on non-scalar in %s", x.Op, show(x))
	}
	switch x.Op {
	case "==", "!=", "===", "!==":
		a, b = ex.unifyNil(a, b)
		if a.T.S != b.T.S {
			ex.specFail("comparison of %s with %s in %s", a.T.S, b.T.S, show(x))
		}
		var r *Term
		if x.Op == "===" || x.Op == "!==" {
			r = Eq(a.T, b.T)
		} else {
			r = ex.valEq(a, b)
		}
		if x.Op == "!=" || x.Op == "!==" {
			r = Not(r)
		}
		return Val{T: r, Ty: tyBool}
	case "<":
		return Val{T: Lt(a.T, b.T), Ty: tyBool}
	case "<=":
		return Val{T: Le(a.T, b.T), Ty: tyBool}
	case ">":
		return Val{T: Gt(a.T, b.T), Ty: tyBool}
	case ">=":
		return Val{T: Ge(a.T, b.T), Ty: tyBool}
	case "+":
		if a.T.S == SStr {
			return Val{T: ex.concat(a.T, b.T), Ty: tyStr}
		}
		return Val{T: Add(a.T, b.T), Ty: tyInt}
	case "-":
		return Val{T: Sub(a.T, b.T), Ty: tyInt}
	case "*":
		return Val{T: Mul(a.T, b.T), Ty: tyInt}
	case "/":
		return Val{T: tdiv(a.T, b.T), Ty: tyInt}
	case "%":
		return Val{T: Sub(a.T, Mul(b.T, tdiv(a.T, b.T))), Ty: tyInt}
	case "++":
		if a.T.S != SSeq || b.T.S != SSeq {
			ex.specFail("++ needs sequences in %s", show(x))
		}
		// only  s ++ [x1..xn]  with a literal right operand is supported
		lit, ok := x.Y.(*SSeqLit)
		if !ok {
			ex.specFail("++ needs a literal right operand in %s", show(x))
		}
		arr, ln := SeqArr(a.T), SeqLen(a.T)
		for i, el := range lit.Elems {
			arr = Store(arr, Add(ln, IntLit(int64(i))), ex.evInt(el, env))
		}
		return Val{T: MkSeq(arr, Add(ln, IntLit(int64(len(lit.Elems))))), Ty: tySeq}
	}
	ex.specFail("operator %s unsupported", x.Op)
	return Val{}
}

// valEq: Go-level equality (content equality for strings / events / seqs).
func (ex *Exec) valEq(a, b Val) *Term {
	switch a.T.S {
	case SStr:
		return ex.strEq(a.T, b.T)
	case SEvent:
		return And(Eq(EvKind(a.T), EvKind(b.T)), Eq(EvObj(a.T), EvObj(b.T)), ex.strEq(EvStr(a.T), EvStr(b.T)),
			Eq(EvInt(a.T), EvInt(b.T)), Eq(EvObj2(a.T), EvObj2(b.T)))
	case SSeq:
		i := BV("i!s", SInt)
		return And(Eq(SeqLen(a.T), SeqLen(b.T)), Forall([]BVar{{"i!s", SInt}},
			Imp(And(Le(IntLit(0), i), Lt(i, SeqLen(a.T))), Eq(Select(SeqArr(a.T), i), Select(SeqArr(b.T), i)))))
	case SSlice:
		if a.T == NilSlice {
			return Eq(SlBase(b.T), IntLit(0))
		}
		if b.T == NilSlice {
			return Eq(SlBase(a.T), IntLit(0))
		}
	}
	return Eq(a.T, b.T)
}

func (ex *Exec) evSel(x *SSel, env *Env) Val {
	obj := ex.ev(x.X, env)
	st := env.st
	if env.inOld {
		st = env.old
	}
	// pseudo-fields of spec values
	if obj.T != nil {
		switch obj.T.S {
		case SEvent:
			switch x.Name {
			case "kind":
				return Val{T: EvKind(obj.T), Ty: tyInt}
			case "obj":
				return Val{T: EvObj(obj.T), Ty: tyRef}
			case "str":
				return Val{T: EvStr(obj.T), Ty: tyStr}
			case "num":
				return Val{T: EvInt(obj.T), Ty: tyInt}
			case "obj2":
				return Val{T: EvObj2(obj.T), Ty: tyRef}
			case "seq":
				return Val{T: EvSeq(obj.T), Ty: tyInt}
			}
		}
	}
	if len(obj.Fs) > 0 {
		if stt, ok := obj.Ty.Underlying().(*types.Struct); ok {
			for i := 0; i < stt.NumFields(); i++ {
				if stt.Field(i).Name() == x.Name {
					return obj.Fs[i]
				}
			}
		}
	}
	stt, named, ok := derefStruct(obj.Ty)
	if !ok || obj.T == nil {
		ex.specFail("%s: selector on non-struct (%v)", show(x), obj.Ty)
	}
	for i := 0; i < stt.NumFields(); i++ {
		f := stt.Field(i)
		if f.Name() != x.Name {
			continue
		}
		if isStructVal(f.Type()) {
			return Val{T: ex.subobj(obj.T, named, i), Ty: f.Type()}
		}
		return ex.load(st, &Loc{Kind: locField, Obj: obj.T, Heap: heapFieldName(named, f.Name()), Ty: f.Type()})
	}
	// promoted fields through embedded structs
	for i := 0; i < stt.NumFields(); i++ {
		f := stt.Field(i)
		if f.Embedded() && isStructVal(f.Type()) {
			inner := f.Type().Underlying().(*types.Struct)
			for j := 0; j < inner.NumFields(); j++ {
				if inner.Field(j).Name() == x.Name {
					sub := ex.subobj(obj.T, named, i)
					return ex.load(st, &Loc{Kind: locField, Obj: sub, Heap: heapFieldName(f.Type(), x.Name), Ty: inner.Field(j).Type()})
				}
			}
		}
	}
	ex.specFail("%s: no field %s in %s", show(x), x.Name, named)
	return Val{}
}

func (ex *Exec) evIndex(x *SIndex, env *Env) Val {
	base := ex.ev(x.X, env)
	st := env.st
	if env.inOld {
		st = env.old
	}
	if base.T == nil {
		ex.specFail("index of non-scalar in %s", show(x))
	}
	switch base.T.S {
	case SStr:
		return Val{T: SAt(base.T, ex.evInt(x.I, env)), Ty: tyInt}
	case SSlice:
		et := base.Ty.Underlying().(*types.Slice).Elem()
		es := sortOf(et)
		h := ex.getHeap(st, heapArrName(et), ArrS(SInt, ArrS(SInt, es)))
		return Val{T: Select(Select(h, SlBase(base.T)), Add(SlOff(base.T), ex.evInt(x.I, env))), Ty: et}
	case SSeq:
		return Val{T: Select(SeqArr(base.T), ex.evInt(x.I, env)), Ty: tyInt}
	case SInt:
		if mt, ok := base.Ty.Underlying().(*types.Map); ok {
			k := ex.ev(x.I, env)
			key := ex.mapKey(k, mt.Key())
			vs := sortOf(mt.Elem())
			val := ex.getHeap(st, mapValName(mt), ArrS(SInt, ArrS(SInt, vs)))
			dom := ex.getHeap(st, mapDomName(mt), ArrS(SInt, ArrS(SInt, SBool)))
			return Val{T: Ite(And(Neq(base.T, IntLit(0)), Select(Select(dom, base.T), key)), Select(Select(val, base.T), key), ex.zeroOf(vs)), Ty: mt.Elem()}
		}
	}
	if base.T.S.IsArr() {
		k, v := base.T.S.ArrParts()
		idx := ex.ev(x.I, env)
		it := idx.T
		if it.S == SStr && k == SInt {
			ex.needSid = true
			it = Sid(it)
		}
		if it.S != k {
			ex.specFail("index sort mismatch in %s", show(x))
		}
		if et, ok := ex.rawElemTy[base.T.String()]; ok {
			return Val{T: Select(base.T, it), Ty: et}
		}
		return Val{T: Select(base.T, it), Ty: tyOfSort(v, base.Ty)}
	}
	ex.specFail("cannot index %s", show(x))
	return Val{}
}

func tyOfSort(s Sort, container types.Type) types.Type {
	switch s {
	case SInt:
		return tyInt
	case SBool:
		return tyBool
	case SStr:
		return tyStr
	case SEvent:
		return tyEvent
	case SSeq:
		return tySeq
	}
	return tyInt
}

func (ex *Exec) evSlice(x *SSliceE, env *Env) Val {
	base := ex.ev(x.X, env)
	lo := IntLit(0)
	if x.Lo != nil {
		lo = ex.evInt(x.Lo, env)
	}
	switch base.T.S {
	case SStr:
		hi := SLen(base.T)
		if x.Hi != nil {
			hi = ex.evInt(x.Hi, env)
		}
		return Val{T: SubStr(base.T, lo, hi), Ty: tyStr}
	case SSlice:
		hi := SlLen(base.T)
		if x.Hi != nil {
			hi = ex.evInt(x.Hi, env)
		}
		return Val{T: MkSlice(SlBase(base.T), Add(SlOff(base.T), lo), Sub(hi, lo), Sub(SlCap(base.T), lo)), Ty: base.Ty}
	}
	ex.specFail("cannot slice %s", show(x))
	return Val{}
}

func (ex *Exec) evQuant(x *SQuant, env *Env) Val {
	n := *env
	n.vars = map[string]Val{}
	for k, v := range env.vars {
		n.vars[k] = v
	}
	n.depth = env.depth + 1
	var bound []BVar
	for _, v := range x.Vars {
		t := ex.V.specType(v.Type, env.pkgOr(ex.pkg))
		s := sortOf(t)
		if s == "STRUCT" || strings.HasPrefix(string(s), "UNSUPPORTED") {
			ex.specFail("cannot quantify over %s", v.Type)
		}
		name := fmt.Sprintf("%s!q%d", v.Name, env.depth)
		bound = append(bound, BVar{name, s})
		n.vars[v.Name] = Val{T: BV(name, s), Ty: t}
	}
	body := ex.evBool(x.Body, &n)
	// bound variables range over well-formed Go values only
	var wf []*Term
	for _, b := range bound {
		switch b.S {
		case SStr:
			wf = append(wf, Ge(SLen(BV(b.Name, b.S)), IntLit(0)))
		case SSlice:
			wf = append(wf, Ge(SlLen(BV(b.Name, b.S)), IntLit(0)))
		case SSeq:
			wf = append(wf, Ge(SeqLen(BV(b.Name, b.S)), IntLit(0)))
		}
	}
	if len(wf) > 0 {
		if x.Kind == "forall" {
			body = Imp(And(wf...), body)
		} else {
			body = And(append(wf, body)...)
		}
	}
	if x.Kind == "forall" {
		if u := unrollForall(bound, body); u != nil {
			return Val{T: u, Ty: tyBool}
		}
		return Val{T: Forall(bound, body), Ty: tyBool}
	}
	// exists i :: lo <= i && i < hi && P(i)  ==  !forall i :: lo <= i && i < hi ==> !P(i)
	if body.Op == "and" && !body.IsSym {
		var guard, rest []*Term
		for _, c := range body.Args {
			if isBoundCmp(c, bound[0].Name) {
				guard = append(guard, c)
			} else {
				rest = append(rest, c)
			}
		}
		if len(guard) >= 2 {
			if u := unrollForall(bound, Imp(And(guard...), Not(And(rest...)))); u != nil {
				return Val{T: Not(u), Ty: tyBool}
			}
		}
	}
	return Val{T: Exists(bound, body), Ty: tyBool}
}

func isBoundCmp(c *Term, name string) bool {
	if c.IsSym || len(c.Args) != 2 {
		return false
	}
	switch c.Op {
	case "<", "<=", ">", ">=":
	default:
		return false
	}
	isVar := func(t *Term) bool { return len(t.Args) == 0 && t.Op == name }
	_, lc := c.Args[0].IntVal()
	_, rc := c.Args[1].IntVal()
	return (isVar(c.Args[0]) && rc) || (isVar(c.Args[1]) && lc)
}

// unrollForall expands  forall i :: c1 <= i && i < c2 ==> P(i)  when c1, c2
// are integer constants and the range is small.
func unrollForall(bound []BVar, body *Term) *Term {
	if len(bound) != 1 || bound[0].S != SInt || body.Op != "=>" || body.IsSym {
		return nil
	}
	name := bound[0].Name
	guard, rest := body.Args[0], body.Args[1]
	var conj []*Term
	if guard.Op == "and" && !guard.IsSym {
		conj = guard.Args
	} else {
		conj = []*Term{guard}
	}
	var lo, hi *int64
	var others []*Term
	for _, c := range conj {
		matched := false
		if !c.IsSym && len(c.Args) == 2 {
			l, r := c.Args[0], c.Args[1]
			lv, lok := l.IntVal()
			rv, rok := r.IntVal()
			isVar := func(t *Term) bool { return len(t.Args) == 0 && t.Op == name }
			switch {
			case c.Op == "<=" && lok && isVar(r):
				v := lv
				lo = &v
				matched = true
			case c.Op == "<" && lok && isVar(r):
				v := lv + 1
				lo = &v
				matched = true
			case c.Op == "<" && isVar(l) && rok:
				v := rv
				hi = &v
				matched = true
			case c.Op == "<=" && isVar(l) && rok:
				v := rv + 1
				hi = &v
				matched = true
			case c.Op == ">=" && isVar(l) && rok:
				v := rv
				lo = &v
				matched = true
			}
		}
		if !matched {
			others = append(others, c)
		}
	}
	if lo == nil || hi == nil || *hi-*lo > 40 {
		return nil
	}
	var out []*Term
	for k := *lo; k < *hi; k++ {
		m := map[string]*Term{name: IntLit(k)}
		out = append(out, Imp(And(others...).Subst(m), rest.Subst(m)))
	}
	return And(out...)
}

func (ex *Exec) evCall(x *SCall, env *Env) Val {
	st := env.st
	if env.inOld {
		st = env.old
	}
	arg := func(i int) Val {
		if i >= len(x.Args) {
			ex.specFail("%s: missing argument %d", x.Fn, i)
		}
		return ex.ev(x.Args[i], env)
	}
	switch x.Fn {
	case "iterstart":
		// value of the expression at the head of the current iteration
		if env.li == nil || env.li.headState == nil {
			ex.specFail("iterstart() outside a loop step / invariant")
		}
		n := *env
		n.st = env.li.headState
		return ex.ev(x.Args[0], &n)
	case "emptysmap":
		return Val{T: ex.V.constArr(ex, ArrS(SInt, SStr), ex.emptyStr()), Ty: tySMap}
	case "emptyimap":
		return Val{T: ex.V.constArr(ex, ArrS(SInt, SInt), IntLit(0)), Ty: tyIMap}
	case "preloop":
		// value of the expression in the state in which the loop was entered
		if env.li == nil || env.li.entryState == nil {
			ex.specFail("preloop() outside a loop invariant")
		}
		n := *env
		n.st = env.li.entryState
		return ex.ev(x.Args[0], &n)
	case "len":
		a := arg(0)
		switch a.T.S {
		case SStr:
			return Val{T: SLen(a.T), Ty: tyInt}
		case SSlice:
			return Val{T: SlLen(a.T), Ty: tyInt}
		case SSeq:
			return Val{T: SeqLen(a.T), Ty: tyInt}
		case SInt:
			if mt, ok := a.Ty.Underlying().(*types.Map); ok {
				vs := sortOf(mt.Elem())
				_ = vs
				dom := Select(ex.getHeap(st, mapDomName(mt), ArrS(SInt, ArrS(SInt, SBool))), a.T)
				return Val{T: ex.card(dom, a.T), Ty: tyInt}
			}
		}
		ex.specFail("len of %s", show(x.Args[0]))
	case "cap":
		return Val{T: SlCap(arg(0).T), Ty: tyInt}
	case "base":
		return Val{T: SlBase(arg(0).T), Ty: tyRef}
	case "fresh":
		a := arg(0)
		t := a.T
		if t.S == SSlice {
			t = SlBase(t)
		}
		return Val{T: And(Ge(t, ex.getHeap(env.old, "$nextref", SInt)), Lt(t, ex.getHeap(env.st, "$nextref", SInt))), Ty: tyBool}
	case "isa":
		// isa(x, "T"): x points to an object allocated as a T (of the current package)
		k, ok := x.Args[1].(*SStrLit)
		if !ok {
			ex.specFail("isa: second argument must be a type name string")
		}
		t := ex.V.lookupType(k.Val, env.pkgOr(ex.pkg))
		if t == nil {
			ex.specFail("isa: unknown type %s", k.Val)
		}
		h := ex.getHeap(st, "$typeof", ArrS(SInt, SInt))
		xa := arg(0).T
		// (x < $nextref is implied: unallocated references carry tag 0)
		return Val{T: And(Gt(xa, IntLit(0)), Eq(Select(h, xa), IntLit(int64(ex.V.nameID("type:"+structName(t)))))), Ty: tyBool}
	case "allocated":
		a := arg(0)
		t := a.T
		if t.S == SSlice {
			t = SlBase(t)
		}
		return Val{T: Lt(t, ex.getHeap(st, "$nextref", SInt)), Ty: tyBool}
	case "sid":
		ex.needSid = true
		return Val{T: Sid(arg(0).T), Ty: tyInt}
	case "has":
		m := arg(0)
		mt, ok := m.Ty.Underlying().(*types.Map)
		if !ok {
			// set membership on a raw (Array Int Bool)
			if m.T.S == ArrS(SInt, SBool) {
				k := arg(1)
				kt := k.T
				if kt.S == SStr {
					ex.needSid = true
					kt = Sid(kt)
				}
				return Val{T: Select(m.T, kt), Ty: tyBool}
			}
			ex.specFail("has: not a map in %s", show(x))
		}
		key := ex.mapKey(arg(1), mt.Key())
		vs := sortOf(mt.Elem())
		_ = vs
		dom := ex.getHeap(st, mapDomName(mt), ArrS(SInt, ArrS(SInt, SBool)))
		return Val{T: And(Neq(m.T, IntLit(0)), Select(Select(dom, m.T), key)), Ty: tyBool}
	case "dom":
		m := arg(0)
		mt := m.Ty.Underlying().(*types.Map)
		vs := sortOf(mt.Elem())
		_ = vs
		return Val{T: Select(ex.getHeap(st, mapDomName(mt), ArrS(SInt, ArrS(SInt, SBool))), m.T), Ty: tySet}
	case "vals":
		m := arg(0)
		mt := m.Ty.Underlying().(*types.Map)
		vs := sortOf(mt.Elem())
		rv := Select(ex.getHeap(st, mapValName(mt), ArrS(SInt, ArrS(SInt, vs))), m.T)
		ex.rawElemTy[rv.String()] = mt.Elem()
		return Val{T: rv, Ty: rawArrTy(vs)}
	case "visited":
		// visited set of the enclosing map-range loop (ordinal optional)
		if env.li == nil {
			ex.specFail("visited() outside loop")
		}
		for b := range env.li.blocks {
			for _, in := range b.Instrs {
				if nx, ok := in.(*ssa.Next); ok {
					if it, ok := ex.iterMaps[nx.Iter]; ok {
						return Val{T: ex.getHeap(st, it.name, ArrS(SInt, SBool)), Ty: tySet}
					}
				}
			}
		}
		ex.specFail("no map iterator for this loop")
	case "held":
		return Val{T: Select(ex.getHeap(st, "$held", ArrS(SInt, SInt)), arg(0).T), Ty: tyInt}
	case "wgcount":
		return Val{T: Select(ex.getHeap(st, "$wg", ArrS(SInt, SInt)), arg(0).T), Ty: tyInt}
	case "ev":
		// ev("kind", obj, str, num, obj2) with trailing arguments optional
		k, ok := x.Args[0].(*SStrLit)
		if !ok || eventKindByName[k.Val] == 0 {
			ex.specFail("ev: first argument must be an event kind name")
		}
		var obj, str, num, obj2 *Term
		if len(x.Args) > 1 {
			obj = arg(1).T
		}
		if len(x.Args) > 2 {
			str = arg(2).T
		}
		if len(x.Args) > 3 {
			num = arg(3).T
		}
		if len(x.Args) > 4 {
			obj2 = arg(4).T
		}
		return Val{T: ex.mkEvent(eventKindByName[k.Val], obj, str, num, obj2), Ty: tyEvent}
	case "kindof":
		k, ok := x.Args[0].(*SStrLit)
		if !ok || eventKindByName[k.Val] == 0 {
			ex.specFail("kindof: needs an event kind name")
		}
		return Val{T: IntLit(int64(eventKindByName[k.Val])), Ty: tyInt}
	case "fnid":
		k, ok := x.Args[0].(*SStrLit)
		if !ok {
			ex.specFail("fnid: needs a string literal")
		}
		return Val{T: IntLit(int64(ex.V.nameID("fn:" + k.Val))), Ty: tyInt}
	case "extid":
		k, ok := x.Args[0].(*SStrLit)
		if !ok {
			ex.specFail("extid: needs a string literal")
		}
		return Val{T: IntLit(int64(ex.V.nameID("ext:" + k.Val))), Ty: tyInt}
	case "ifaceof":
		// ifaceof(x): the interface value wrapping pointer x of its static type
		a := arg(0)
		r := ex.D.Fn("iface."+sanitize(typeKey(a.Ty)), SInt, a.T)
		return Val{T: r, Ty: tyRef}
	case "funcof":
		// funcof("pkg.Key"): the function value constant of a named function
		k, ok := x.Args[0].(*SStrLit)
		if !ok {
			ex.specFail("funcof: needs a string literal")
		}
		return Val{T: ex.V.fnConstByKey(ex, k.Val), Ty: tyRef}
	case "subobj":
		ex.specFail("use field selection for sub-objects")
	case "seqdel":
		// seqdel(s, p): s without its element at position p
		a := arg(0)
		return Val{T: ex.D.Fn("seqdel", SSeq, a.T, ex.evInt(x.Args[1], env)), Ty: tySeq}
	case "seqof":
		// the (immutable) sequence of the elements of a slice of references / ints
		a := arg(0)
		if a.T.S != SSlice {
			ex.specFail("seqof: not a slice")
		}
		es := sortOf(a.Ty.Underlying().(*types.Slice).Elem())
		if es != SInt {
			ex.specFail("seqof: element sort %s unsupported", es)
		}
		h := ex.getHeap(st, heapArrName(a.Ty.Underlying().(*types.Slice).Elem()), ArrS(SInt, ArrS(SInt, es)))
		return Val{T: MkSeq(ex.D.Fn("seqshift", ArrS(SInt, SInt), Select(h, SlBase(a.T)), SlOff(a.T)), SlLen(a.T)), Ty: tySeq}
	case "impl":
		// impl(x, "pkg.Type"): the *pkg.Type held by interface value x (impl directive)
		k, ok := x.Args[1].(*SStrLit)
		if !ok {
			ex.specFail("impl: second argument must be a type name string")
		}
		var t types.Type
		if i := strings.Index(k.Val, "."); i > 0 {
			if tp := ex.V.tpkgs[k.Val[:i]]; tp != nil {
				t = ex.V.lookupType(k.Val[i+1:], tp)
			}
		} else {
			t = ex.V.lookupType(k.Val, env.pkgOr(ex.pkg))
		}
		if t == nil {
			ex.specFail("impl: unknown type %s", k.Val)
		}
		return ex.unwrapIface(arg(0), types.NewPointer(t))
	case "sidset", "sidsetn":
		// the set of string identities of the elements of a []string (or of
		// its first n elements): sidsetf(row, lo, hi) = { sid(row[j]) | lo <= j < hi }
		a := arg(0)
		if a.T.S != SSlice || sortOf(a.Ty.Underlying().(*types.Slice).Elem()) != SStr {
			ex.specFail("%s: not a []string", x.Fn)
		}
		ex.needSid = true
		h := ex.getHeap(st, heapArrName(a.Ty.Underlying().(*types.Slice).Elem()), ArrS(SInt, ArrS(SInt, SStr)))
		n := SlLen(a.T)
		if x.Fn == "sidsetn" {
			n = arg(1).T
		}
		return Val{T: ex.D.Fn("sidsetf", ArrS(SInt, SBool), Select(h, SlBase(a.T)), SlOff(a.T), Add(SlOff(a.T), n)), Ty: tySet}
	case "joinsp":
		// joinsp(s, lo, hi, sep): s[lo] + sep + s[lo+1] + ... + s[hi-1]
		a := arg(0)
		if a.T.S != SSlice || sortOf(a.Ty.Underlying().(*types.Slice).Elem()) != SStr {
			ex.specFail("joinsp: not a []string")
		}
		ex.needSid = true
		h := ex.getHeap(st, heapArrName(a.Ty.Underlying().(*types.Slice).Elem()), ArrS(SInt, ArrS(SInt, SStr)))
		return Val{T: ex.D.Fn("joinspf", SStr, Select(h, SlBase(a.T)), Add(SlOff(a.T), arg(1).T), Add(SlOff(a.T), arg(2).T), arg(3).T), Ty: tyStr}
	case "emptyseq":
		return Val{T: MkSeq(ex.V.constArr(ex, ArrS(SInt, SInt), IntLit(0)), IntLit(0)), Ty: tySeq}
	case "emptyset":
		return Val{T: ex.V.constArr(ex, ArrS(SInt, SBool), False), Ty: tySet}
	case "setadd":
		s := arg(0)
		k := arg(1).T
		if k.S == SStr {
			ex.needSid = true
			k = Sid(k)
		}
		return Val{T: Store(s.T, k, True), Ty: tySet}
	case "upd":
		// upd(m, k, v): functional update of a raw array
		m := arg(0)
		k := arg(1).T
		if k.S == SStr {
			ex.needSid = true
			k = Sid(k)
		}
		return Val{T: Store(m.T, k, arg(2).T), Ty: m.Ty}
	case "abs":
		a := arg(0).T
		return Val{T: Ite(Ge(a, IntLit(0)), a, Neg(a)), Ty: tyInt}
	case "max":
		a, b := arg(0).T, arg(1).T
		return Val{T: Ite(Ge(a, b), a, b), Ty: tyInt}
	case "min":
		a, b := arg(0).T, arg(1).T
		return Val{T: Ite(Le(a, b), a, b), Ty: tyInt}
	case "sconcat":
		return Val{T: ex.concat(arg(0).T, arg(1).T), Ty: tyStr}
	case "chr":
		ex.needChr = true
		return Val{T: ex.D.Fn("chr", SStr, arg(0).T), Ty: tyStr}
	}
	// declared spec functions
	sf, ok := ex.V.db.SpecFns[x.Fn]
	if !ok {
		ex.specFail("unknown spec function %s", x.Fn)
	}
	if len(sf.Params) != len(x.Args) {
		ex.specFail("%s: expected %d arguments, got %d", x.Fn, len(sf.Params), len(x.Args))
	}
	defPkg := env.pkgOr(ex.pkg)
	if tp := ex.V.tpkgs[sf.Pkg]; tp != nil && ex.V.isOurPkg(tp) {
		defPkg = tp // names in the declaration and body are those of the defining package
	}
	var args []Val
	for i := range x.Args {
		a := arg(i)
		pt := ex.V.specType(sf.Params[i].Type, defPkg)
		if a.Ty == tyRef && sortOf(pt) == SSlice {
			a = Val{T: NilSlice, Ty: pt}
		}
		if a.T == nil || sortOf(pt) != a.T.S {
			ex.specFail("%s: argument %d has sort %v, expected %s", x.Fn, i, a, sortOf(pt))
		}
		a.Ty = pt
		args = append(args, a)
	}
	rt := ex.V.specType(sf.Ret, defPkg)
	if sf.Body == nil {
		var ts []*Term
		for _, a := range args {
			ts = append(ts, a.T)
		}
		ex.usedSpecFns[sf.Name] = true
		return Val{T: ex.D.Fn("sf."+sf.Name, sortOf(rt), ts...), Ty: rt}
	}
	// defined: macro expansion in a fresh scope (state access allowed)
	if env.depth > 40 {
		ex.specFail("spec function expansion too deep (recursion?) in %s", x.Fn)
	}
	n := &Env{ex: ex, st: env.st, old: env.old, vars: map[string]Val{}, callee: true, inOld: env.inOld, li: env.li, pkg: defPkg, depth: env.depth + 1}
	for i, p := range sf.Params {
		n.vars[p.Name] = args[i]
	}
	r := ex.ev(sf.Body, n)
	r.Ty = rt
	return r
}

func rawArrTy(v Sort) types.Type {
	switch v {
	case SInt:
		return tyIMap
	case SStr:
		return tySMap
	case SBool:
		return tySet
	case SSeq:
		return tyQMap
	}
	return tyIMap
}

// ---------------------------------------------------------------------------
// lock discipline and frames

// guardCheck: accesses to guarded fields need the guarding lock held.
func (ex *Exec) guardCheck(l *Loc, write bool, pos token.Pos) {
	if l.Kind != locField || l.Owner == nil || ex.spec == nil {
		return
	}
	key := structName(l.Owner) + "." + l.Field
	lockExpr, ok := ex.V.db.Guarded[key]
	if !ok {
		return
	}
	if len(ex.spec.Attrs["lockcheck"]) == 0 {
		return
	}
	tags := strings.Split(ex.spec.Attrs["lockcheck"], "+")
	// lock expression is relative to the owner object: "self.mu"
	e, err := ParseSpecExpr(lockExpr)
	if err != nil {
		ex.specFail("guarded_by %s: %v", key, err)
	}
	env := ex.envAt(ex.cur, nil)
	env.callee = true
	env.vars["self"] = Val{T: l.Obj, Ty: types.NewPointer(l.Owner)}
	lk := ex.ev(e, env)
	h := Select(ex.getHeap(ex.cur, "$held", ArrS(SInt, SInt)), lk.T)
	var g *Term
	what := "read"
	if write {
		g = Eq(h, IntLit(1))
		what = "write"
	} else {
		g = Gt(h, IntLit(0))
	}
	// objects allocated by this call are not yet shared
	g = Or(g, Ge(l.Obj, ex.getHeap(ex.init, "$nextref", SInt)))
	ex.oblige("lock:"+what, tags, g, pos, fmt.Sprintf("%s of %s with %s held", what, key, lockExpr))
}

func (ex *Exec) noteKey(k *Term) {
	ex.keyTerms = append(ex.keyTerms, k)
}

// checkFrame: every heap component changed by the function is covered by its
// modifies clauses (objects allocated by the call are exempt).
func (ex *Exec) checkFrame(env *Env, pos token.Pos) {
	if ex.spec.Attrs["frame"] != "checked" {
		return
	}
	allowed := map[string][]*Term{} // heap name -> refs that may change ; nil slice + whole => any
	whole := map[string]bool{}
	penv0 := ex.envAt(ex.init, nil)
	penv0.entry = true
	mentionsResult := func(e SExpr) bool {
		t := show(e)
		for name := range env.vars {
			if strings.HasPrefix(name, "result") && strings.Contains(t, name) {
				return true
			}
		}
		return false
	}
	for _, cl := range ex.spec.Clauses {
		if cl.Kind != "modifies" {
			continue
		}
		for _, e := range cl.Exprs {
			// targets rooted at a result are evaluated in the final state
			// (they denote objects the call allocated); all others in the pre-state
			penv := penv0
			if mentionsResult(e) {
				penv = env
			}
			switch x := e.(type) {
			case *SIdent:
				whole[x.Name] = true
				if ex.V.db.IsTrace(x.Name) {
					whole[x.Name+"len"] = true
				}
			case *SSel:
				if tn := ex.V.typeOfSpecExpr(x.X, ex.pkg, func(n string) bool { _, ok := ex.params[n]; return ok }); tn != nil {
					whole[heapFieldName(tn, x.Name)] = true
					continue
				}
				obj := ex.ev(x.X, penv)
				_, named, _ := derefStruct(obj.Ty)
				n := heapFieldName(named, x.Name)
				allowed[n] = append(allowed[n], obj.T)
			case *SCall:
				switch x.Fn {
				case "elems":
					sl := ex.ev(x.Args[0], penv)
					n := heapArrName(sl.Ty.Underlying().(*types.Slice).Elem())
					allowed[n] = append(allowed[n], SlBase(sl.T))
				case "entries":
					m := ex.ev(x.Args[0], penv)
					fmt2 := m.Ty.Underlying().(*types.Map)
					allowed[mapDomName(fmt2)] = append(allowed[mapDomName(fmt2)], m.T)
					allowed[mapValName(fmt2)] = append(allowed[mapValName(fmt2)], m.T)
				}
			}
		}
	}
	tags := ex.spec.Props
	if t := ex.spec.Attrs["frametags"]; t != "" {
		tags = strings.Split(t, "+")
	}
	oldNext := ex.getHeap(ex.init, "$nextref", SInt)
	for name, cur := range ex.cur.heap {
		if whole[name] || name == "$nextref" || name == "$seq" || name == "$typeof" || strings.HasPrefix(name, "$iter.") {
			continue
		}
		pre := ex.getHeap(ex.init, name, cur.S)
		if pre == cur {
			continue
		}
		if !cur.S.IsArr() {
			ex.oblige("frame:"+name, tags, Eq(cur, pre), pos, "frame: "+name+" unchanged")
			continue
		}
		k, _ := cur.S.ArrParts()
		if k != SInt {
			continue
		}
		r := BV("r!f", SInt)
		var excl []*Term
		for _, a := range allowed[name] {
			excl = append(excl, Neq(r, a))
		}
		g := Forall([]BVar{{"r!f", SInt}}, Imp(And(append(excl, Lt(r, oldNext), Ge(r, IntLit(0)))...), Eq(Select(cur, r), Select(pre, r))))
		ex.oblige("frame:"+name, tags, g, pos, "frame: "+name+" changes only where the modifies clause allows")
	}
}
