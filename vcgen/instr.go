package main

import (
	"fmt"
	"go/constant"
	"go/token"
	"go/types"
	"strings"

	"golang.org/x/tools/go/ssa"
)

func (ex *Exec) constVal(c *ssa.Const) Val {
	t := c.Type()
	if c.Value == nil {
		// zero value / nil
		s := sortOf(t)
		switch s {
		case SInt, SBool, SStr, SSlice:
			return Val{T: ex.zeroOf(s), Ty: t}
		}
		if isStructVal(t) {
			st := t.Underlying().(*types.Struct)
			v := Val{Ty: t}
			for i := 0; i < st.NumFields(); i++ {
				v.Fs = append(v.Fs, ex.constVal(ssa.NewConst(nil, st.Field(i).Type())))
			}
			return v
		}
		ex.fail("zero constant of type %s", t)
		return Val{T: IntLit(0), Ty: t}
	}
	switch c.Value.Kind() {
	case constant.Bool:
		return Val{T: BoolLit(constant.BoolVal(c.Value)), Ty: t}
	case constant.String:
		return Val{T: ex.strLit(constant.StringVal(c.Value)), Ty: t}
	case constant.Int:
		return Val{T: BigLit(c.Value.ExactString()), Ty: t}
	case constant.Float:
		if sortOf(t) == SInt {
			if i, ok := constant.Int64Val(constant.ToInt(c.Value)); ok {
				return Val{T: IntLit(i), Ty: t}
			}
			return Val{T: ex.D.Fresh("floatconst", SInt), Ty: t}
		}
	}
	ex.fail("constant %s of type %s", c.Value, t)
	return Val{T: IntLit(0), Ty: t}
}

func (ex *Exec) setVal(v ssa.Value, x Val) {
	if x.Ty == nil {
		x.Ty = v.Type()
	}
	ex.vals[v] = x
}

// defVal names the value of an SSA register by a fresh constant.
func (ex *Exec) defVal(v ssa.Value, t *Term) {
	if t.Size() > 8 {
		c := ex.D.Fresh(v.Name(), t.S)
		ex.assume(Eq(c, t))
		if t.S == SStr {
			if p, ok := ex.concatPrefix[t.String()]; ok {
				ex.concatPrefix[c.String()] = p
			}
		}
		t = c
	}
	ex.vals[v] = Val{T: t, Ty: v.Type()}
}

func (ex *Exec) step(in ssa.Instruction) {
	defer func() {
		if r := recover(); r != nil {
			if s, ok := r.(string); ok && strings.HasPrefix(s, "spec:") {
				panic(r)
			}
			ex.fail("engine panic at %s: %v (%s)", ex.posOf(in.Pos()), r, in)
			if v, ok := in.(ssa.Value); ok {
				if _, done := ex.vals[v]; !done {
					ex.vals[v] = ex.freshVal("undef", v.Type())
				}
			}
		}
	}()
	switch x := in.(type) {
	case *ssa.DebugRef:
	case *ssa.Alloc:
		ex.stepAlloc(x)
	case *ssa.Store:
		ex.stepStore(x)
	case *ssa.UnOp:
		ex.stepUnOp(x)
	case *ssa.BinOp:
		ex.stepBinOp(x)
	case *ssa.FieldAddr:
		ex.stepFieldAddr(x)
	case *ssa.Field:
		sv := ex.val(x.X)
		if len(sv.Fs) > x.Field {
			ex.setVal(x, sv.Fs[x.Field])
		} else {
			ex.fail("field of non-struct value")
			ex.setVal(x, ex.freshVal("undef", x.Type()))
		}
	case *ssa.IndexAddr:
		ex.stepIndexAddr(x)
	case *ssa.Index:
		base := ex.val(x.X)
		idx := ex.val(x.Index)
		if base.T != nil && base.T.S == SStr {
			ex.panicCheck("index", And(Le(IntLit(0), idx.T), Lt(idx.T, SLen(base.T))), x.Pos(),
				fmt.Sprintf("string index %s[%s] in range", describe(x.X), describe(x.Index)))
			ex.defVal(x, SAt(base.T, idx.T))
			ex.byteRange(ex.vals[x].T)
			break
		}
		ex.fail("array value indexing unsupported")
		ex.setVal(x, ex.freshVal("undef", x.Type()))
	case *ssa.Lookup:
		ex.stepLookup(x)
	case *ssa.Slice:
		ex.stepSlice(x)
	case *ssa.MakeSlice:
		ex.stepMakeSlice(x)
	case *ssa.MakeMap:
		r := ex.newRef(ex.cur, "map")
		mt := x.Type().Underlying().(*types.Map)
		vs := sortOf(mt.Elem())
		_ = vs
		dn, vn := mapDomName(mt), mapValName(mt)
		dom := ex.getHeap(ex.cur, dn, ArrS(SInt, ArrS(SInt, SBool)))
		ex.setHeap(ex.cur, dn, Store(dom, r, ex.V.constArr(ex, ArrS(SInt, SBool), False)))
		_ = vn
		ex.setVal(x, Val{T: r})
	case *ssa.MakeChan:
		r := ex.newRef(ex.cur, "chan")
		ex.setVal(x, Val{T: r})
	case *ssa.MakeInterface:
		ex.stepMakeInterface(x)
	case *ssa.MakeClosure:
		r := ex.newRef(ex.cur, "closure")
		var binds []Val
		for _, b := range x.Bindings {
			binds = append(binds, ex.val(b))
		}
		ex.closures[x] = binds
		ex.closureFn[x] = x.Fn.(*ssa.Function)
		ex.setVal(x, Val{T: r})
	case *ssa.MapUpdate:
		ex.stepMapUpdate(x)
	case *ssa.ChangeInterface:
		ex.setVal(x, ex.val(x.X))
	case *ssa.ChangeType:
		v := ex.val(x.X)
		v.Ty = x.Type()
		ex.setVal(x, v)
	case *ssa.Convert:
		ex.stepConvert(x)
	case *ssa.TypeAssert:
		v := ex.val(x.X)
		if x.CommaOk {
			ok := ex.D.Fresh("assertok", SBool)
			res := ex.castIface(v, x.AssertedType)
			ex.setVal(x, Val{Fs: []Val{res, {T: ok, Ty: tyBool}}, Ty: x.Type()})
		} else {
			// may panic: treated as an uninterpreted success condition
			ok := ex.D.Fresh("assertok", SBool)
			ex.panicCheck("typeassert", ok, x.Pos(), x.String())
			ex.setVal(x, ex.castIface(v, x.AssertedType))
		}
	case *ssa.Extract:
		tv := ex.val(x.Tuple)
		if x.Index < len(tv.Fs) {
			ex.setVal(x, tv.Fs[x.Index])
		} else {
			ex.fail("extract from non-tuple")
			ex.setVal(x, ex.freshVal("undef", x.Type()))
		}
	case *ssa.Phi:
		ex.stepPhi(x)
	case *ssa.Call:
		res := ex.doCall(x.Common(), x, x.Pos())
		ex.setVal(x, res)
	case *ssa.Go:
		ex.stepGo(x)
	case *ssa.Defer:
		ex.stepDefer(x)
	case *ssa.RunDefers:
		ex.stepRunDefers(x)
	case *ssa.Send:
		ch := ex.val(x.Chan)
		v := ex.val(x.X)
		ex.chanInvSend(x.Chan, v, x.Pos())
		ex.panicCheck("nilchan", True, x.Pos(), "")
		ex.emit(ex.chanEvent(evSend, ch.T, v))
	case *ssa.Select:
		ex.stepSelect(x)
	case *ssa.Range:
		ex.stepRange(x)
	case *ssa.Next:
		ex.stepNext(x)
	case *ssa.Return:
		ex.stepReturn(x)
	case *ssa.If, *ssa.Jump:
	case *ssa.Panic:
		if ex.safety {
			ex.oblige("panic:explicit", ex.spec.Safety, False, x.Pos(), "explicit panic")
		}
		ex.assumeHere(False)
	default:
		ex.fail("unsupported instruction %T: %s", in, in)
		if v, ok := in.(ssa.Value); ok {
			ex.setVal(v, ex.freshVal("undef", v.Type()))
		}
	}
}

func (ex *Exec) castIface(v Val, t types.Type) Val {
	if v.T != nil && sortOf(t) == SInt {
		return Val{T: v.T, Ty: t}
	}
	return ex.freshVal("asserted", t)
}

func (ex *Exec) stepAlloc(x *ssa.Alloc) {
	et := x.Type().(*types.Pointer).Elem()
	switch {
	case isStructVal(et):
		r := ex.newRef(ex.cur, cellHint(x))
		ex.zeroInit(ex.cur, r, et)
		ex.tagType(ex.cur, r, et)
		ex.setVal(x, Val{T: r})
	case isArrayT(et):
		at := et.Underlying().(*types.Array)
		r := ex.newRef(ex.cur, cellHint(x))
		es := sortOf(at.Elem())
		name := heapArrName(at.Elem())
		h := ex.getHeap(ex.cur, name, ArrS(SInt, ArrS(SInt, es)))
		ex.setHeap(ex.cur, name, Store(h, r, ex.V.constArr(ex, ArrS(SInt, es), ex.zeroOf(es))))
		ex.setVal(x, Val{T: r})
	default:
		s := sortOf(et)
		if strings.HasPrefix(string(s), "UNSUPPORTED") || s == "TUPLE" {
			ex.fail("alloc of unsupported type %s", et)
			s = SInt
		}
		ex.cur.cells[x] = Val{T: ex.zeroOf(s), Ty: et}
		ex.setVal(x, Val{Loc: &Loc{Kind: locCell, Alloc: x, Ty: et}})
	}
}

func (ex *Exec) stepStore(x *ssa.Store) {
	addr := ex.val(x.Addr)
	v := ex.val(x.Val)
	if addr.Loc != nil {
		if addr.Loc.Kind == locFree {
			ex.fail("store to captured variable")
			return
		}
		ex.guardCheck(addr.Loc, true, x.Pos())
		ex.store(ex.cur, addr.Loc, v)
		return
	}
	// pointer to struct object: whole-struct store
	et := x.Addr.Type().(*types.Pointer).Elem()
	if isStructVal(et) && addr.T != nil && len(v.Fs) > 0 {
		ex.panicCheck("nil", Neq(addr.T, IntLit(0)), x.Pos(), "store through "+x.Addr.Name())
		ex.storeStruct(ex.cur, addr.T, et, v)
		return
	}
	ex.fail("store through unsupported pointer %s", x.Addr)
}

func (ex *Exec) stepUnOp(x *ssa.UnOp) {
	v := ex.val(x.X)
	switch x.Op {
	case token.MUL:
		if v.Loc != nil {
			if v.Loc.Kind == locFree {
				ex.setVal(x, ex.freeVarVals[v.Loc.Free])
				return
			}
			ex.guardCheck(v.Loc, false, x.Pos())
			r := ex.load(ex.cur, v.Loc)
			if r.T != nil && (v.Loc.Kind == locField || v.Loc.Kind == locElem || v.Loc.Kind == locGlobal) {
				// name it and assume its type invariant
				c := ex.D.Fresh(x.Name(), r.T.S)
				ex.assume(Eq(c, r.T))
				ex.wfVal(c, x.Type())
				ex.assumeAllocated(c, x.Type(), ex.cur)
				r.T = c
			}
			r.Ty = x.Type()
			ex.setVal(x, r)
			return
		}
		et := x.Type()
		if isStructVal(et) && v.T != nil {
			ex.panicCheck("nil", Neq(v.T, IntLit(0)), x.Pos(), "load through "+x.X.Name())
			ex.setVal(x, ex.loadStruct(ex.cur, v.T, et))
			return
		}
		ex.fail("load through unsupported pointer %s", x.X)
		ex.setVal(x, ex.freshVal("undef", x.Type()))
	case token.NOT:
		ex.setVal(x, Val{T: Not(v.T)})
	case token.SUB:
		ex.setVal(x, Val{T: ex.wrap(Neg(v.T), x.Type(), x.Pos())})
	case token.ARROW:
		res := ex.freshVal("recv", x.Type())
		var got Val
		if x.CommaOk {
			got = res.Fs[0]
		} else {
			got = res
		}
		if got.T != nil {
			ex.assumeAllocated(got.T, got.Ty, ex.cur)
		}
		ex.emit(ex.chanEvent(evRecv, v.T, got))
		ex.timerRecv(v.T)
		ex.chanInvRecv(x.X, got)
		ex.setVal(x, res)
	case token.XOR:
		ex.setVal(x, Val{T: ex.D.Fn("bitnot", SInt, v.T)})
	default:
		ex.fail("unop %s", x.Op)
		ex.setVal(x, ex.freshVal("undef", x.Type()))
	}
}

// wrap applies the fixed-width semantics of the result type: unsigned types
// wrap exactly; signed overflow is an obligation when arithmetic is checked.
func (ex *Exec) wrap(t *Term, ty types.Type, pos token.Pos) *Term {
	if bits, ok := isUnsigned(ty); ok {
		if bits < 64 {
			if n, isC := t.IntVal(); isC && n >= 0 && n < (1<<uint(bits)) {
				return t
			}
			return bi("mod", SInt, t, IntLit(1<<uint(bits)))
		}
		return bi("mod", SInt, t, BigLit("18446744073709551616"))
	}
	if lo, hi, ok := intRange(ty); ok {
		if _, isC := t.IntVal(); isC {
			return t
		}
		if ex.arithChk {
			ex.oblige("overflow", ex.spec.Safety, And(Le(BigLit(lo), t), Le(t, BigLit(hi))), pos, "no overflow in "+string(t.String()))
		}
	}
	return t
}

func tdiv(a, b *Term) *Term {
	// Go truncated division
	q := bi("div", SInt, a, b)
	return Ite(Or(Ge(a, IntLit(0)), Eq(bi("mod", SInt, a, b), IntLit(0))), q,
		Ite(Gt(b, IntLit(0)), Add(q, IntLit(1)), Sub(q, IntLit(1))))
}

func (ex *Exec) stepBinOp(x *ssa.BinOp) {
	a, b := ex.val(x.X), ex.val(x.Y)
	ty := x.X.Type()
	s := sortOf(ty)
	var r *Term
	switch x.Op {
	case token.ADD:
		if s == SStr {
			r = ex.concat(a.T, b.T)
		} else {
			r = ex.wrap(Add(a.T, b.T), x.Type(), x.Pos())
		}
	case token.SUB:
		r = ex.wrap(Sub(a.T, b.T), x.Type(), x.Pos())
	case token.MUL:
		r = ex.wrap(Mul(a.T, b.T), x.Type(), x.Pos())
	case token.QUO:
		ex.panicCheck("divzero", Neq(b.T, IntLit(0)), x.Pos(), x.String())
		if _, uns := isUnsigned(x.Type()); uns {
			r = bi("div", SInt, a.T, b.T)
		} else {
			r = tdiv(a.T, b.T)
		}
	case token.REM:
		ex.panicCheck("divzero", Neq(b.T, IntLit(0)), x.Pos(), x.String())
		if _, uns := isUnsigned(x.Type()); uns {
			r = bi("mod", SInt, a.T, b.T)
		} else {
			r = Sub(a.T, Mul(b.T, tdiv(a.T, b.T)))
		}
	case token.EQL, token.NEQ:
		var e *Term
		switch {
		case s == SStr:
			e = ex.strEq(a.T, b.T)
		case s == SSlice:
			// only comparison with nil is legal
			if a.T == NilSlice {
				e = Eq(SlBase(b.T), IntLit(0))
			} else {
				e = Eq(SlBase(a.T), IntLit(0))
			}
		case a.T != nil && b.T != nil:
			e = Eq(a.T, b.T)
		case len(a.Fs) > 0 && len(a.Fs) == len(b.Fs):
			var cs []*Term
			for i := range a.Fs {
				if a.Fs[i].T == nil {
					ex.fail("nested struct comparison")
					continue
				}
				if a.Fs[i].T.S == SStr {
					cs = append(cs, ex.strEq(a.Fs[i].T, b.Fs[i].T))
				} else {
					cs = append(cs, Eq(a.Fs[i].T, b.Fs[i].T))
				}
			}
			e = And(cs...)
		default:
			ex.fail("comparison of unsupported values")
			e = ex.D.Fresh("cmp", SBool)
		}
		if x.Op == token.NEQ {
			e = Not(e)
		}
		r = e
	case token.LSS, token.LEQ, token.GTR, token.GEQ:
		if s != SInt {
			ex.fail("ordered comparison on %s", ty)
			r = ex.D.Fresh("cmp", SBool)
			break
		}
		switch x.Op {
		case token.LSS:
			r = Lt(a.T, b.T)
		case token.LEQ:
			r = Le(a.T, b.T)
		case token.GTR:
			r = Gt(a.T, b.T)
		case token.GEQ:
			r = Ge(a.T, b.T)
		}
	case token.AND, token.OR, token.XOR, token.SHL, token.SHR, token.AND_NOT:
		if s == SBool {
			switch x.Op {
			case token.AND:
				r = And(a.T, b.T)
			case token.OR:
				r = Or(a.T, b.T)
			default:
				r = Not(Eq(a.T, b.T))
			}
			break
		}
		r = ex.D.Fn("bitop_"+sanitize(x.Op.String()), SInt, a.T, b.T)
		if lo, hi, ok := intRange(x.Type()); ok {
			ex.assume(And(Le(BigLit(lo), r), Le(r, BigLit(hi))))
		}
	default:
		ex.fail("binop %s", x.Op)
		r = ex.freshVal("undef", x.Type()).T
	}
	ex.defVal(x, r)
}

// concat: string concatenation as an uninterpreted function with axioms
// instantiated for this term (length and both halves).
func (ex *Exec) concat(a, b *Term) *Term {
	if la, ok := ex.litOf(a); ok && la == "" {
		return b
	}
	if lb, ok := ex.litOf(b); ok && lb == "" {
		return a
	}
	ex.needConcat = true
	c := ex.D.Fn("sconcat", SStr, a, b)
	key := c.String()
	if _, done := ex.concatPrefix[key]; done {
		return c
	}
	// ground consequences of the concat axioms for this term: offset, length
	// and the bytes of its known literal prefix
	prefix := ""
	if la, ok := ex.litOf(a); ok {
		prefix = la
		if lb, ok := ex.litOf(b); ok {
			prefix += lb
		} else if pb, ok := ex.concatPrefix[b.String()]; ok && len(la) == len(prefix) {
			prefix += pb
		}
	} else if pa, ok := ex.concatPrefix[a.String()]; ok {
		prefix = pa
	}
	ex.concatPrefix[key] = prefix
	if !isGroundTerm(c) {
		return c // under a quantifier: the quantified concat axioms apply
	}
	ex.globalFacts = append(ex.globalFacts, Eq(SOff(c), IntLit(0)), Eq(SLen(c), Add(SLen(a), SLen(b))))
	for i := 0; i < len(prefix) && i < 64; i++ {
		ex.globalFacts = append(ex.globalFacts, Eq(Select(SArr(c), IntLit(int64(i))), IntLit(int64(prefix[i]))))
	}
	return c
}

func (ex *Exec) stepFieldAddr(x *ssa.FieldAddr) {
	base := ex.val(x.X)
	st, named, ok := derefStruct(x.X.Type())
	if !ok || base.T == nil {
		ex.fail("fieldaddr on unsupported base %s", x.X)
		ex.setVal(x, ex.freshVal("undef", x.Type()))
		return
	}
	ex.panicCheck("nil", Neq(base.T, IntLit(0)), x.Pos(), "nil dereference of "+describe(x.X)+"."+st.Field(x.Field).Name())
	f := st.Field(x.Field)
	if isStructVal(f.Type()) {
		ex.setVal(x, Val{T: ex.subobj(base.T, named, x.Field)})
		return
	}
	ex.setVal(x, Val{Loc: &Loc{Kind: locField, Obj: base.T, Heap: heapFieldName(named, f.Name()), Ty: f.Type(), Owner: named, Field: f.Name()}})
}

func describe(v ssa.Value) string {
	if u, ok := v.(*ssa.UnOp); ok && u.Op == token.MUL {
		if a, ok := u.X.(*ssa.Alloc); ok && a.Comment != "" {
			return a.Comment
		}
		if fa, ok := u.X.(*ssa.FieldAddr); ok {
			st, _, ok := derefStruct(fa.X.Type())
			if ok {
				return describe(fa.X) + "." + st.Field(fa.Field).Name()
			}
		}
	}
	if p, ok := v.(*ssa.Parameter); ok {
		return p.Name()
	}
	return v.Name()
}

func (ex *Exec) stepIndexAddr(x *ssa.IndexAddr) {
	base := ex.val(x.X)
	idx := ex.val(x.Index)
	switch t := x.X.Type().Underlying().(type) {
	case *types.Slice:
		ex.panicCheck("index", And(Le(IntLit(0), idx.T), Lt(idx.T, SlLen(base.T))), x.Pos(),
			fmt.Sprintf("index %s[%s] in range", describe(x.X), describe(x.Index)))
		ex.setVal(x, Val{Loc: &Loc{Kind: locElem, Obj: SlBase(base.T), Idx: Add(SlOff(base.T), idx.T), Ty: t.Elem()}})
	case *types.Pointer:
		at := t.Elem().Underlying().(*types.Array)
		ex.panicCheck("index", And(Le(IntLit(0), idx.T), Lt(idx.T, IntLit(at.Len()))), x.Pos(), "array index in range")
		ex.setVal(x, Val{Loc: &Loc{Kind: locElem, Obj: base.T, Idx: idx.T, Ty: at.Elem()}})
	default:
		ex.fail("indexaddr on %s", x.X.Type())
		ex.setVal(x, ex.freshVal("undef", x.Type()))
	}
}

func (ex *Exec) stepLookup(x *ssa.Lookup) {
	base := ex.val(x.X)
	idx := ex.val(x.Index)
	switch t := x.X.Type().Underlying().(type) {
	case *types.Basic: // string
		ex.panicCheck("index", And(Le(IntLit(0), idx.T), Lt(idx.T, SLen(base.T))), x.Pos(),
			fmt.Sprintf("string index %s[%s] in range", describe(x.X), describe(x.Index)))
		ex.defVal(x, SAt(base.T, idx.T))
		ex.byteRange(ex.vals[x].T)
	case *types.Map:
		key := ex.mapKey(idx, t.Key())
		vs := sortOf(t.Elem())
		dom := ex.getHeap(ex.cur, mapDomName(t), ArrS(SInt, ArrS(SInt, SBool)))
		val := ex.getHeap(ex.cur, mapValName(t), ArrS(SInt, ArrS(SInt, vs)))
		okT := And(Neq(base.T, IntLit(0)), Select(Select(dom, base.T), key))
		okC := ex.D.Fresh(x.Name()+".ok", SBool)
		ex.assume(Eq(okC, okT))
		vC := ex.D.Fresh(x.Name(), vs)
		ex.assume(Eq(vC, Ite(okC, Select(Select(val, base.T), key), ex.zeroOf(vs))))
		ex.wfVal(vC, t.Elem())
		ex.assumeAllocated(vC, t.Elem(), ex.cur)
		if x.CommaOk {
			ex.setVal(x, Val{Fs: []Val{{T: vC, Ty: t.Elem()}, {T: okC, Ty: tyBool}}, Ty: x.Type()})
		} else {
			ex.setVal(x, Val{T: vC})
		}
	default:
		ex.fail("lookup on %s", x.X.Type())
		ex.setVal(x, ex.freshVal("undef", x.Type()))
	}
}

// mapKey maps a key value to the Int key space (strings through sid).
func (ex *Exec) mapKey(k Val, kt types.Type) *Term {
	if k.T == nil {
		ex.fail("map key of unsupported kind")
		return ex.D.Fresh("key", SInt)
	}
	switch k.T.S {
	case SStr:
		ex.needSid = true
		return Sid(k.T)
	case SInt:
		return k.T
	case SBool:
		return Ite(k.T, IntLit(1), IntLit(0))
	}
	ex.fail("map key sort %s", k.T.S)
	return ex.D.Fresh("key", SInt)
}

func (ex *Exec) stepMapUpdate(x *ssa.MapUpdate) {
	m := ex.val(x.Map)
	mt := x.Map.Type().Underlying().(*types.Map)
	key := ex.mapKey(ex.val(x.Key), mt.Key())
	v := ex.val(x.Value)
	vs := sortOf(mt.Elem())
	ex.panicCheck("nilmap", Neq(m.T, IntLit(0)), x.Pos(), "assignment to entry in nil map "+describe(x.Map))
	dn, vn := mapDomName(mt), mapValName(mt)
	dom := ex.getHeap(ex.cur, dn, ArrS(SInt, ArrS(SInt, SBool)))
	val := ex.getHeap(ex.cur, vn, ArrS(SInt, ArrS(SInt, vs)))
	ex.setHeap(ex.cur, dn, ex.named(dn, Store(dom, m.T, Store(Select(dom, m.T), key, True))))
	ex.setHeap(ex.cur, vn, ex.named(vn, Store(val, m.T, Store(Select(val, m.T), key, v.T))))
	if ex.val(x.Key).T.S == SStr {
		ex.noteKey(ex.val(x.Key).T)
	}
}

func (ex *Exec) stepSlice(x *ssa.Slice) {
	base := ex.val(x.X)
	var lo, hi *Term
	if x.Low != nil {
		lo = ex.val(x.Low).T
	} else {
		lo = IntLit(0)
	}
	switch t := x.X.Type().Underlying().(type) {
	case *types.Basic: // string
		if x.High != nil {
			hi = ex.val(x.High).T
		} else {
			hi = SLen(base.T)
		}
		ex.panicCheck("slice", And(Le(IntLit(0), lo), Le(lo, hi), Le(hi, SLen(base.T))), x.Pos(),
			fmt.Sprintf("slice bounds of %s in range", describe(x.X)))
		ex.defStr(x, SubStr(base.T, lo, hi))
	case *types.Slice:
		if x.High != nil {
			hi = ex.val(x.High).T
		} else {
			hi = SlLen(base.T)
		}
		mx := SlCap(base.T)
		if x.Max != nil {
			mx = ex.val(x.Max).T
			ex.panicCheck("slice", And(Le(hi, mx), Le(mx, SlCap(base.T))), x.Pos(), "slice max in range")
		}
		ex.panicCheck("slice", And(Le(IntLit(0), lo), Le(lo, hi), Le(hi, SlCap(base.T))), x.Pos(),
			fmt.Sprintf("slice bounds of %s in range", describe(x.X)))
		ex.defVal(x, MkSlice(SlBase(base.T), Add(SlOff(base.T), lo), Sub(hi, lo), Sub(mx, lo)))
	case *types.Pointer:
		at := t.Elem().Underlying().(*types.Array)
		n := IntLit(at.Len())
		if x.High != nil {
			hi = ex.val(x.High).T
		} else {
			hi = n
		}
		ex.panicCheck("slice", And(Le(IntLit(0), lo), Le(lo, hi), Le(hi, n)), x.Pos(), "slice bounds in range")
		ex.defVal(x, MkSlice(base.T, lo, Sub(hi, lo), Sub(n, lo)))
	default:
		ex.fail("slice of %s", x.X.Type())
		ex.setVal(x, ex.freshVal("undef", x.Type()))
	}
}

// defStr names a string value, keeping it as an explicit view when small.
func (ex *Exec) defStr(v ssa.Value, t *Term) {
	c := ex.D.Fresh(v.Name(), SStr)
	ex.assume(Eq(c, t))
	ex.vals[v] = Val{T: c, Ty: v.Type()}
}

func (ex *Exec) stepMakeSlice(x *ssa.MakeSlice) {
	ln := ex.val(x.Len).T
	cp := ex.val(x.Cap).T
	ex.panicCheck("makeslice", And(Le(IntLit(0), ln), Le(ln, cp)), x.Pos(), "makeslice: len out of range")
	r := ex.newRef(ex.cur, "mkslice")
	es := sortOf(x.Type().Underlying().(*types.Slice).Elem())
	name := heapArrName(x.Type().Underlying().(*types.Slice).Elem())
	h := ex.getHeap(ex.cur, name, ArrS(SInt, ArrS(SInt, es)))
	ex.setHeap(ex.cur, name, Store(h, r, ex.V.constArr(ex, ArrS(SInt, es), ex.zeroOf(es))))
	ex.defVal(x, MkSlice(r, IntLit(0), ln, cp))
}

func (ex *Exec) stepMakeInterface(x *ssa.MakeInterface) {
	v := ex.val(x.X)
	if v.T != nil && v.T.S == SInt {
		switch x.X.Type().Underlying().(type) {
		case *types.Pointer, *types.Signature:
			// interface values holding pointers / funcs: tagged injection
			r := ex.D.Fn("iface."+sanitize(typeKey(x.X.Type())), SInt, v.T)
			ex.assume(Gt(r, IntLit(0)))
			ex.assume(Eq(ex.D.Fn("unwrap."+sanitize(typeKey(x.X.Type())), SInt, r), v.T))
			ex.ifaceSrc[r.String()] = ifaceOrigin{v, x.X.Type()}
			ex.setVal(x, Val{T: r})
			return
		}
	}
	// other dynamic types: opaque non-nil interface value; remember the
	// payload for information-flow purposes (logging arguments)
	r := ex.D.Fresh("iface", SInt)
	ex.assume(Gt(r, IntLit(0)))
	ex.ifacePayload[r.Op] = v
	ex.setVal(x, Val{T: r})
}

func (ex *Exec) stepConvert(x *ssa.Convert) {
	v := ex.val(x.X)
	from, to := x.X.Type(), x.Type()
	fs, ts := sortOf(from), sortOf(to)
	switch {
	case fs == SInt && ts == SInt:
		if bits, ok := isUnsigned(to); ok {
			_ = bits
			ex.defVal(x, ex.wrap(v.T, to, x.Pos()))
			return
		}
		ex.setVal(x, Val{T: v.T})
	case fs == SInt && ts == SStr:
		ex.needChr = true
		ex.defVal(x, ex.D.Fn("chr", SStr, v.T))
	case fs == SStr && ts == SSlice, fs == SSlice && ts == SStr:
		r := ex.freshVal("conv", to)
		if ts == SSlice {
			nb := ex.newRef(ex.cur, "bytes")
			ex.assume(Eq(SlBase(r.T), nb))
			ex.assume(Eq(SlLen(r.T), SLen(v.T)))
		} else {
			ex.assume(Eq(SLen(r.T), SlLen(v.T)))
		}
		ex.setVal(x, r)
	case fs == ts:
		ex.setVal(x, Val{T: v.T})
	default:
		ex.fail("convert %s -> %s", from, to)
		ex.setVal(x, ex.freshVal("undef", to))
	}
}

func (ex *Exec) stepPhi(x *ssa.Phi) {
	b := x.Block()
	s := sortOf(x.Type())
	c := ex.D.Fresh(x.Name(), s)
	for i, p := range b.Preds {
		if _, done := ex.outState[p]; !done {
			continue
		}
		ev := ex.val(x.Edges[i])
		if ev.T == nil {
			ex.fail("phi of non-scalar")
			continue
		}
		ex.assume(Imp(ex.edgeCond(p, b), Eq(c, ev.T)))
	}
	ex.setVal(x, Val{T: c})
}

func (ex *Exec) stepReturn(x *ssa.Return) {
	// A return block that only joins paths (phis + return): the postcondition
	// is checked on each incoming path in that path's own state, so that what
	// the last callee on the path ensured is literally available instead of
	// hidden behind merged heap names.
	b := x.Block()
	if ex.joinOnlyReturn(b) {
		saveCur, savePc := ex.cur, ex.pc
		for pi, p := range b.Preds {
			st, done := ex.outState[p]
			if !done {
				continue
			}
			ex.returns++
			ex.cur = st.clone()
			ex.pc = ex.edgeCond(p, b)
			// replay the block's (local-only) instructions on this path
			for _, in := range b.Instrs {
				switch y := in.(type) {
				case *ssa.Phi:
					ex.vals[y] = ex.val(y.Edges[pi])
				case *ssa.Return, *ssa.RunDefers, *ssa.DebugRef:
				default:
					ex.step(in)
				}
			}
			var res []Val
			for _, r := range x.Results {
				res = append(res, ex.val(r))
			}
			ex.checkPost(res, x.Pos())
		}
		ex.cur, ex.pc = saveCur, savePc
		return
	}
	ex.returns++
	var res []Val
	for _, r := range x.Results {
		res = append(res, ex.val(r))
	}
	ex.checkPost(res, x.Pos())
}

// joinOnlyReturn: b has several executed predecessors, is not a loop header,
// and consists of phis followed by the return only.
func (ex *Exec) joinOnlyReturn(b *ssa.BasicBlock) bool {
	if len(b.Preds) < 2 || ex.fn.Recover != nil {
		return false
	}
	for _, in := range b.Instrs {
		switch in.(type) {
		case *ssa.Phi, *ssa.Return, *ssa.DebugRef:
		case *ssa.RunDefers:
			if ex.hasDefers() {
				return false
			}
		case *ssa.UnOp:
			// loads only
			if y := in.(*ssa.UnOp); y.Op != token.MUL {
				return false
			}
		case *ssa.Store:
			// stores to local cells only
			if a, ok := in.(*ssa.Store).Addr.(*ssa.Alloc); !ok || a.Heap {
				return false
			}
		default:
			return false
		}
	}
	for _, p := range b.Preds {
		if _, done := ex.outState[p]; !done {
			return false // back edge or unreachable predecessor
		}
		if last := p.Instrs[len(p.Instrs)-1]; last != nil {
			if _, isIf := last.(*ssa.If); !isIf {
				if _, isJump := last.(*ssa.Jump); !isJump {
					return false
				}
			}
		}
	}
	return true
}

// ---------------------------------------------------------------------------
// map iteration

func (ex *Exec) iterHeapName(v ssa.Value) string {
	return fmt.Sprintf("$iter.%s", v.Name())
}

func (ex *Exec) stepRange(x *ssa.Range) {
	m := ex.val(x.X)
	mt, ok := x.X.Type().Underlying().(*types.Map)
	if !ok {
		ex.fail("range over %s", x.X.Type())
		ex.setVal(x, Val{T: IntLit(0)})
		return
	}
	name := ex.iterHeapName(x)
	ex.iterName[x] = name
	ex.setHeap(ex.cur, name, ex.V.constArr(ex, ArrS(SInt, SBool), False))
	ex.iterMaps[x] = iterInfo{m: m, name: name, keyTy: mt.Key(), valTy: mt.Elem()}
	ex.setVal(x, Val{T: IntLit(0)})
}

func (ex *Exec) stepNext(x *ssa.Next) {
	it, ok := ex.iterMaps[x.Iter]
	if !ok {
		ex.fail("next on unsupported iterator")
		ex.setVal(x, ex.freshVal("undef", x.Type()))
		return
	}
	vs := sortOf(it.valTy)
	imt := types.NewMap(it.keyTy, it.valTy)
	dom := Select(ex.getHeap(ex.cur, mapDomName(imt), ArrS(SInt, ArrS(SInt, SBool))), it.m.T)
	val := Select(ex.getHeap(ex.cur, mapValName(imt), ArrS(SInt, ArrS(SInt, vs))), it.m.T)
	visited := ex.getHeap(ex.cur, it.name, ArrS(SInt, SBool))
	okC := ex.D.Fresh(x.Name()+".ok", SBool)
	k := ex.D.Fresh(x.Name()+".k", SInt)
	// ok  => k is an unvisited key of the (current) map
	ex.assume(Imp(okC, And(Neq(it.m.T, IntLit(0)), Select(dom, k), Not(Select(visited, k)))))
	// !ok => every key has been visited
	q := BV("k!n", SInt)
	ex.assume(Imp(Not(okC), Or(Eq(it.m.T, IntLit(0)), Forall([]BVar{{"k!n", SInt}}, Imp(Select(dom, q), Select(visited, q))))))
	ex.setHeap(ex.cur, it.name, ex.named(it.name, Ite(okC, Store(visited, k, True), visited)))
	var kv Val
	if sortOf(it.keyTy) == SStr {
		ks := ex.freshVal(x.Name()+".key", it.keyTy)
		ex.needSid = true
		ex.assume(Eq(Sid(ks.T), k))
		ex.noteKey(ks.T)
		kv = ks
	} else {
		kv = Val{T: k, Ty: it.keyTy}
		ex.wfVal(k, it.keyTy)
		ex.assumeAllocated(k, it.keyTy, ex.cur)
	}
	vC := ex.D.Fresh(x.Name()+".v", vs)
	ex.assume(Eq(vC, Select(val, k)))
	ex.wfVal(vC, it.valTy)
	ex.assumeAllocated(vC, it.valTy, ex.cur)
	ex.setVal(x, Val{Fs: []Val{{T: okC, Ty: tyBool}, kv, {T: vC, Ty: it.valTy}}, Ty: x.Type()})
}

// timerRecv: a receive from a timer channel completes no earlier than the
// channel's deadline; the ghost clock $now (a lower bound of real time, below
// 2^62 ns while the program runs) advances accordingly.
func (ex *Exec) timerRecv(ch *Term) {
	if _, ok := ex.V.db.Ghosts["$deadline"]; !ok {
		return
	}
	dl := Select(ex.getHeap(ex.cur, "$deadline", ArrS(SInt, SInt)), ch)
	now := ex.getHeap(ex.cur, "$now", SInt)
	n2 := ex.D.Fresh("$now", SInt)
	ex.assume(Eq(n2, Ite(Gt(dl, now), dl, now)))
	ex.assumeHere(Le(n2, BigLit("4611686018427387904")))
	ex.setHeap(ex.cur, "$now", n2)
}

// isGroundTerm: no bound variables occur in t.
func isGroundTerm(t *Term) bool {
	ok := true
	t.Walk(func(x *Term) {
		if len(x.Args) == 0 && !x.IsSym && x.Op != "true" && x.Op != "false" {
			if _, isInt := x.IntVal(); !isInt {
				ok = false
			}
		}
	})
	return ok
}

// Channel invariants (chan_nonnil Type.field): every value sent on the channel
// stored in that field is non-nil (an obligation at each send), so every value
// received from it may be assumed non-nil.
func (ex *Exec) chanInvRecv(ch ssa.Value, got Val) {
	if f, ok := fieldOf(ch); ok {
		if _, has := ex.V.db.ChanNonNil[f]; has && got.T != nil && got.T.S == SInt {
			ex.assumeHere(Neq(got.T, IntLit(0)))
		}
	}
}

func (ex *Exec) chanInvSend(ch ssa.Value, v Val, pos token.Pos) {
	if f, ok := fieldOf(ch); ok {
		if tags, has := ex.V.db.ChanNonNil[f]; has && v.T != nil && v.T.S == SInt {
			ex.oblige("chaninv:"+f, tags, Neq(v.T, IntLit(0)), pos, "value sent on "+f+" is non-nil")
		}
	}
}

// hasDefers: the function contains a defer statement.
func (ex *Exec) hasDefers() bool {
	for _, b := range ex.fn.Blocks {
		for _, in := range b.Instrs {
			if _, ok := in.(*ssa.Defer); ok {
				return true
			}
		}
	}
	return false
}
