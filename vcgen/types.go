package main

import (
	"fmt"
	"go/types"
	"strings"
)

// Sentinel spec-only types (never appear in goirc's own code).
var (
	tySeq   = types.NewNamed(types.NewTypeName(0, nil, "seq", nil), types.NewStruct(nil, nil), nil)
	tyEvent = types.NewNamed(types.NewTypeName(0, nil, "event", nil), types.NewStruct(nil, nil), nil)
	tyRef   = types.NewNamed(types.NewTypeName(0, nil, "ref", nil), types.Typ[types.UnsafePointer], nil)
	tySet   = types.NewNamed(types.NewTypeName(0, nil, "set", nil), types.NewStruct(nil, nil), nil)    // Array Int Bool
	tyIMap  = types.NewNamed(types.NewTypeName(0, nil, "imap", nil), types.NewStruct(nil, nil), nil)   // Array Int Int
	tySMap  = types.NewNamed(types.NewTypeName(0, nil, "smap", nil), types.NewStruct(nil, nil), nil)   // Array Int Str
	tyQMap  = types.NewNamed(types.NewTypeName(0, nil, "seqmap", nil), types.NewStruct(nil, nil), nil) // Array Int Seq
	tyInt   = types.Typ[types.Int]
	tyBool  = types.Typ[types.Bool]
	tyStr   = types.Typ[types.String]
)

func typeKey(t types.Type) string {
	return types.TypeString(t, func(p *types.Package) string { return p.Name() })
}

// isOpaqueIntStruct: named struct types modelled as a single Int.
func isOpaqueIntStruct(t types.Type) bool {
	if n, ok := t.(*types.Named); ok && n.Obj().Pkg() != nil {
		switch n.Obj().Pkg().Path() + "." + n.Obj().Name() {
		case "time.Time":
			return true
		}
	}
	return false
}

// sortOf maps a Go type to the SMT sort of its values. Struct values have no
// single sort ("STRUCT"): they are handled field-wise by the engine.
func sortOf(t types.Type) Sort {
	switch t {
	case tySeq:
		return SSeq
	case tyEvent:
		return SEvent
	case tySet:
		return ArrS(SInt, SBool)
	case tyIMap:
		return ArrS(SInt, SInt)
	case tySMap:
		return ArrS(SInt, SStr)
	case tyQMap:
		return ArrS(SInt, SSeq)
	case tyTrace:
		return ArrS(SInt, SEvent)
	}
	if isOpaqueIntStruct(t) {
		return SInt
	}
	switch u := t.Underlying().(type) {
	case *types.Basic:
		switch {
		case u.Info()&types.IsBoolean != 0:
			return SBool
		case u.Info()&types.IsString != 0:
			return SStr
		case u.Info()&types.IsInteger != 0:
			return SInt
		case u.Kind() == types.UnsafePointer, u.Kind() == types.UntypedNil:
			return SInt
		case u.Info()&types.IsFloat != 0:
			return SInt // floats are opaque; only passed through to logging
		}
	case *types.Pointer, *types.Map, *types.Chan, *types.Signature, *types.Interface:
		return SInt
	case *types.Slice:
		return SSlice
	case *types.Struct:
		return "STRUCT"
	case *types.Tuple:
		return "TUPLE"
	}
	return Sort("UNSUPPORTED:" + t.String())
}

func isStructVal(t types.Type) bool {
	if isOpaqueIntStruct(t) {
		return false
	}
	switch t {
	case tySeq, tyEvent, tySet, tyIMap, tySMap, tyQMap, tyTrace:
		return false
	}
	_, ok := t.Underlying().(*types.Struct)
	return ok
}

// structName gives the heap prefix of a struct type.
func structName(t types.Type) string {
	if p, ok := t.Underlying().(*types.Pointer); ok {
		t = p.Elem()
	}
	if p, ok := t.(*types.Pointer); ok {
		t = p.Elem()
	}
	if n, ok := t.(*types.Named); ok {
		if n.Obj().Pkg() != nil {
			return n.Obj().Pkg().Name() + "." + n.Obj().Name()
		}
		return n.Obj().Name()
	}
	return "anon." + sanitize(t.String())
}

func heapFieldName(structT types.Type, field string) string {
	return "H." + structName(structT) + "." + field
}

func sortTag(s Sort) string {
	r := strings.NewReplacer("(", "", ")", "", " ", "_")
	return r.Replace(string(s))
}

// Backing arrays and maps are partitioned by element / key-value *type*: Go's
// type system guarantees that a []T never aliases a []U (T != U), and that
// maps of different types are different objects.
func typeTag(t types.Type) string {
	return sanitize(types.TypeString(t, func(p *types.Package) string { return p.Name() }))
}

func heapArrName(elem types.Type) string { return "A." + typeTag(elem) }

func mapDomName(mt *types.Map) string {
	return "M." + typeTag(mt.Key()) + "." + typeTag(mt.Elem()) + ".dom"
}
func mapValName(mt *types.Map) string {
	return "M." + typeTag(mt.Key()) + "." + typeTag(mt.Elem()) + ".val"
}

// zeroOf returns the zero value term of a scalar sort.
func (ex *Exec) zeroOf(s Sort) *Term {
	switch s {
	case SInt:
		return IntLit(0)
	case SBool:
		return False
	case SStr:
		return ex.emptyStr()
	case SSlice:
		return NilSlice
	}
	panic(fmt.Sprintf("zeroOf(%s)", s))
}

func derefStruct(t types.Type) (*types.Struct, types.Type, bool) {
	if p, ok := t.Underlying().(*types.Pointer); ok {
		st, ok := p.Elem().Underlying().(*types.Struct)
		return st, p.Elem(), ok
	}
	st, ok := t.Underlying().(*types.Struct)
	return st, t, ok
}

// intRange returns inclusive bounds for a basic integer type.
func intRange(t types.Type) (lo, hi string, ok bool) {
	b, isB := t.Underlying().(*types.Basic)
	if !isB || b.Info()&types.IsInteger == 0 {
		return "", "", false
	}
	switch b.Kind() {
	case types.Int, types.Int64, types.UntypedInt:
		return "-9223372036854775808", "9223372036854775807", true
	case types.Int32, types.UntypedRune:
		return "-2147483648", "2147483647", true
	case types.Int16:
		return "-32768", "32767", true
	case types.Int8:
		return "-128", "127", true
	case types.Uint, types.Uint64, types.Uintptr:
		return "0", "18446744073709551615", true
	case types.Uint32:
		return "0", "4294967295", true
	case types.Uint16:
		return "0", "65535", true
	case types.Uint8:
		return "0", "255", true
	}
	return "", "", false
}

func isUnsigned(t types.Type) (bits int, ok bool) {
	b, isB := t.Underlying().(*types.Basic)
	if !isB {
		return 0, false
	}
	switch b.Kind() {
	case types.Uint8:
		return 8, true
	case types.Uint16:
		return 16, true
	case types.Uint32:
		return 32, true
	case types.Uint, types.Uint64, types.Uintptr:
		return 64, true
	}
	return 0, false
}
