package main

import (
	"os"
	"fmt"
	"sort"
	"strings"
)

// subgoal: hypotheses ==> atom
type subgoal struct {
	hyps []*Term
	goal *Term
	// fallback: the goal is the guard of a hypothesis literally equal to this
	// formula; if the guard cannot be shown, the formula itself is proved
	fallback *Term
}

// splitGoal splits conjunctions, moves implication antecedents to the
// hypotheses and skolemises universally quantified goals.
func (ex *Exec) splitGoal(g *Term, hyps []*Term, out *[]subgoal) {
	if g == True {
		return
	}
	// a quantified conjunct of the goal that is literally one of the
	// hypotheses (typically: the callee just ensured it) holds whenever that
	// hypothesis' guard does
	if ex.knownHyps != nil && !g.IsSym && hasQuantStrict(g) && (g.Op == "forall" || g.Op == "=>") {
		if os.Getenv("VERIF_DBGKNOWN") != "" && g.Op == "forall" {
			if _, ok := ex.knownHyps[g.Canon()]; !ok {
				fmt.Fprintf(os.Stderr, "UNMATCHED %s\n", truncate(g.Canon(), 300))
			}
		}
		if gd, ok := ex.knownHyps[g.Canon()]; ok {
			if gd == True || (ex.knownPath != nil && gd.String() == ex.knownPath.String()) {
				statKnownHits++
				return
			}
			if !hasQuantStrict(gd) && !ex.noGuardShortcut {
				// the same formula was established under guard gd (e.g. by a callee
				// earlier on the path): showing gd is a propositional question
				statKnownHits++
				*out = append(*out, subgoal{hyps: hyps, goal: gd, fallback: g})
				return
			}
		}
	}
	if !g.IsSym {
		switch g.Op {
		case "and":
			for _, a := range g.Args {
				ex.splitGoal(a, hyps, out)
			}
			return
		case "=>":
			// an existential hypothesis is used through a fresh witness
			h2 := append(append([]*Term{}, hyps...), ex.skolemPos(g.Args[0]))
			ex.splitGoal(g.Args[1], h2, out)
			return
		case "forall":
			m := map[string]*Term{}
			for _, b := range g.Bound {
				m[b.Name] = ex.D.Fresh("sk."+strings.SplitN(b.Name, "!", 2)[0], b.S)
			}
			ex.splitGoal(g.Args[0].Subst(m), hyps, out)
			return
		case "or":
			// A \/ B with one structured disjunct: prove B under ~A
			var big []*Term
			var small []*Term
			for _, a := range g.Args {
				if hasQuantStrict(a) || (!a.IsSym && (a.Op == "and" || a.Op == "=>")) {
					big = append(big, a)
				} else {
					small = append(small, a)
				}
			}
			if len(big) == 1 && len(small) > 0 {
				h2 := append([]*Term{}, hyps...)
				for _, a := range small {
					h2 = append(h2, Not(a))
				}
				ex.splitGoal(big[0], h2, out)
				return
			}
		case "=":
			// extensionality: an array equality is proved at a fresh index, which
			// also gives the instantiation machinery its witness
			if len(g.Args) == 2 && g.Args[0].S.IsArr() {
				if ks, _ := g.Args[0].S.ArrParts(); ks == SInt {
					k := ex.D.Fresh("sk.ext", SInt)
					ex.splitGoal(Eq(Select(g.Args[0], k), Select(g.Args[1], k)), hyps, out)
					return
				}
			}
		case "ite":
			if g.S == SBool {
				h1 := append(append([]*Term{}, hyps...), g.Args[0])
				ex.splitGoal(g.Args[1], h1, out)
				h2 := append(append([]*Term{}, hyps...), Not(g.Args[0]))
				ex.splitGoal(g.Args[2], h2, out)
				return
			}
		}
	}
	*out = append(*out, subgoal{hyps: hyps, goal: g})
}

// altGoals: a content-equality goal streq(a,b) that the solver cannot get
// from identities (sid equalities) is proved from its definition instead:
// equal lengths, and equal bytes at a skolem position.
func (ex *Exec) altGoals(sg subgoal) []subgoal {
	g := sg.goal
	if g.IsSym || g.Op != "streq" {
		return nil
	}
	a, b := g.Args[0], g.Args[1]
	i := ex.D.Fresh("sk.i", SInt)
	h2 := append(append([]*Term{}, sg.hyps...), Le(IntLit(0), i), Lt(i, SLen(a)))
	return []subgoal{{hyps: sg.hyps, goal: Eq(SLen(a), SLen(b))}, {hyps: h2, goal: Eq(SAt(a, i), SAt(b, i))}}
}

// engineAxioms: axioms for the engine-level uninterpreted functions.
func (ex *Exec) engineAxioms(used map[string]bool) string {
	var sb strings.Builder
	if used["sconcat"] {
		sb.WriteString(`(assert (forall ((a Str) (b Str)) (! (and (= (soff (sconcat a b)) 0) (= (slen (sconcat a b)) (+ (slen a) (slen b)))) :pattern ((sconcat a b)))))
(assert (forall ((a Str) (b Str) (i Int)) (! (=> (and (<= 0 i) (< i (slen a))) (= (select (sarr (sconcat a b)) i) (select (sarr a) (+ (soff a) i)))) :pattern ((select (sarr (sconcat a b)) i)))))
(assert (forall ((a Str) (b Str) (i Int)) (! (=> (and (<= (slen a) i) (< i (+ (slen a) (slen b)))) (= (select (sarr (sconcat a b)) i) (select (sarr b) (+ (soff b) (- i (slen a)))))) :pattern ((select (sarr (sconcat a b)) i)))))
`)
	}
	if used["sconcat"] && used["sid"] {
		// concatenation is a function of contents
		sb.WriteString("(assert (forall ((a Str) (b Str)) (! (= (sid (sconcat a b)) (catid (sid a) (sid b))) :pattern ((sconcat a b)))))\n")
	}
	if used["chr"] {
		sb.WriteString(`(assert (forall ((c Int)) (! (and (= (soff (chr c)) 0) (=> (and (<= 0 c) (< c 128)) (and (= (slen (chr c)) 1) (= (select (sarr (chr c)) 0) c))) (=> (and (<= 128 c) (< c 2048)) (= (slen (chr c)) 2))) :pattern ((chr c)))))
`)
	}
	if used["sid"] {
		sb.WriteString(`(assert (forall ((a Str) (b Str)) (! (= (= (sid a) (sid b)) (streqdef a b)) :pattern ((sid a) (sid b)))))
`)
	}
	if used["card"] {
		sb.WriteString(`(assert (forall ((d (Array Int Bool))) (! (>= (card d) 0) :pattern ((card d)))))
(assert (forall ((d (Array Int Bool)) (k Int)) (! (= (card (store d k true)) (ite (select d k) (card d) (+ (card d) 1))) :pattern ((card (store d k true))))))
(assert (forall ((d (Array Int Bool)) (k Int)) (! (= (card (store d k false)) (ite (select d k) (- (card d) 1) (card d))) :pattern ((card (store d k false))))))
(assert (forall ((d (Array Int Bool)) (k Int)) (! (=> (select d k) (> (card d) 0)) :pattern ((card d) (select d k)))))
(assert (= (card ((as const (Array Int Bool)) false)) 0))
(declare-fun cardwit ((Array Int Bool)) Int)
(assert (forall ((d (Array Int Bool))) (! (=> (> (card d) 0) (select d (cardwit d))) :pattern ((card d)))))
`)
	}
	if used["sidsetf"] {
		sb.WriteString(`(declare-fun sidwit ((Array Int Str) Int Int Int) Int)
(assert (forall ((r (Array Int Str)) (lo Int) (hi Int) (k Int)) (! (=> (<= hi lo) (not (select (sidsetf r lo hi) k))) :pattern ((select (sidsetf r lo hi) k)))))
(assert (forall ((r (Array Int Str)) (lo Int) (hi Int) (j Int)) (! (=> (and (<= lo j) (< j hi)) (select (sidsetf r lo hi) (sid (select r j)))) :pattern ((sidsetf r lo hi) (select r j)))))
(assert (forall ((r (Array Int Str)) (lo Int) (hi Int) (k Int)) (! (=> (select (sidsetf r lo hi) k) (and (<= lo (sidwit r lo hi k)) (< (sidwit r lo hi k) hi) (= (sid (select r (sidwit r lo hi k))) k))) :pattern ((select (sidsetf r lo hi) k)))))
`)
	}
	if used["joinspf"] {
		sb.WriteString(`(assert (forall ((r (Array Int Str)) (lo Int) (sep Str)) (! (and (= (sid (joinspf r lo (+ lo 1) sep)) (sid (select r lo))) (= (slen (joinspf r lo (+ lo 1) sep)) (slen (select r lo)))) :pattern ((joinspf r lo (+ lo 1) sep)))))
(assert (forall ((r (Array Int Str)) (lo Int) (hi Int) (sep Str)) (! (=> (> hi lo) (and (= (sid (joinspf r lo (+ hi 1) sep)) (catid (sid (joinspf r lo hi sep)) (catid (sid sep) (sid (select r hi))))) (= (slen (joinspf r lo (+ hi 1) sep)) (+ (slen (joinspf r lo hi sep)) (slen sep) (slen (select r hi)))))) :pattern ((joinspf r lo (+ hi 1) sep)))))
`)
	}
	if used["seqshift"] {
		sb.WriteString(`(assert (forall ((a (Array Int Int)) (o Int) (i Int)) (! (= (select (seqshift a o) i) (select a (+ o i))) :pattern ((select (seqshift a o) i)))))
`)
	}
	if used["seqdel"] {
		sb.WriteString(`(assert (forall ((s ISeq) (p Int)) (! (= (seqlen (seqdel s p)) (- (seqlen s) 1)) :pattern ((seqdel s p)))))
(assert (forall ((s ISeq) (p Int) (i Int)) (! (= (select (seqarr (seqdel s p)) i) (ite (< i p) (select (seqarr s) i) (select (seqarr s) (+ i 1)))) :pattern ((select (seqarr (seqdel s p)) i)))))
`)
	}
	if used["subobj"] {
		sb.WriteString(`(declare-fun subobj.owner (Int) Int)
(declare-fun subobj.field (Int) Int)
(assert (forall ((r Int) (k Int)) (! (and (= (subobj.owner (subobj r k)) r) (= (subobj.field (subobj r k)) k) (< (subobj r k) 0)) :pattern ((subobj r k)))))
`)
	}
	return sb.String()
}

var statKnownHits int

type dbAxiom struct {
	name string
	term *Term
	syms map[string]bool
}

// dbAxioms translates the axioms (and proved lemmas) of the spec database.
func (ex *Exec) dbAxioms() []dbAxiom {
	ex.axMu.Lock()
	defer ex.axMu.Unlock()
	if ex.dbAx != nil {
		return ex.dbAx
	}
	ex.dbAx = []dbAxiom{}
	for _, a := range ex.V.db.Axioms {
		env := &Env{ex: ex, st: ex.init, old: ex.init, vars: map[string]Val{}, callee: true, pkg: ex.pkg}
		t := ex.evBool(a.Expr, env)
		syms := map[string]bool{}
		t.Walk(func(x *Term) {
			if x.IsSym && strings.HasPrefix(x.Op, "sf.") {
				syms[x.Op] = true
			}
		})
		ex.dbAx = append(ex.dbAx, dbAxiom{a.Name, t, syms})
	}
	return ex.dbAx
}

// collectAsserts gathers the hypotheses of one subgoal: the function's
// axioms up to the obligation, the path condition, the subgoal's local
// hypotheses, and the relevance-filtered database axioms.
func (ex *Exec) collectAsserts(o *Obligation, sg subgoal, exclude string) (asserts []*Term, neg *Term, extra []*Term) {
	neg = Not(sg.goal)
	if o.IsCover {
		neg = True
	}
	var pool []*Term
	pool = append(pool, ex.axioms[:o.NAxioms]...)
	// literals created later (by goal evaluation) still need their byte axioms
	pool = append(pool, ex.litAxiomsAfter(o.NAxioms)...)
	pool = append(pool, ex.globalFacts...)
	seed := append(append([]*Term{o.Path}, sg.hyps...), neg)
	if o.IsCover || noCone {
		asserts = append(asserts, pool...)
	} else {
		asserts = append(asserts, coneOfInfluence(pool, seed)...)
	}
	asserts = append(asserts, o.Path)
	asserts = append(asserts, sg.hyps...)
	all := append(append([]*Term{}, asserts...), neg)
	used := map[string]bool{}
	collect := func(ts []*Term) {
		for _, t := range ts {
			t.Walk(func(x *Term) {
				if x.IsSym {
					used[x.Op] = true
				}
			})
		}
	}
	collect(all)
	axs := ex.dbAxioms()
	included := map[int]bool{}
	for changed := true; changed; {
		changed = false
		for i, a := range axs {
			if included[i] || a.name == exclude {
				continue
			}
			hit := false
			for s := range a.syms {
				if used[s] {
					hit = true
					break
				}
			}
			if hit {
				included[i] = true
				extra = append(extra, a.term)
				collect([]*Term{a.term})
				ex.axMu.Lock()
				ex.usedAx[a.name] = true
				ex.axMu.Unlock()
				changed = true
			}
		}
	}
	return
}

// buildQuery renders one subgoal as an SMT-LIB script.
func (ex *Exec) buildQuery(o *Obligation, sg subgoal, exclude string, values []*Term) string {
	return ex.buildQueryMode(o, sg, exclude, values, false)
}

// pairInstances: whether two-variable quantifiers are pre-instantiated too
// (used for the second "light" attempt only: it makes queries much larger).

// buildQueryMode: with light set, hypotheses that contain quantifiers are
// replaced by their pre-instantiated instances only. A light query that is
// unsat discharges the obligation (it uses fewer hypotheses); anything else
// is inconclusive and the full query is tried.
func (ex *Exec) buildQueryMode(o *Obligation, sg subgoal, exclude string, values []*Term, light bool, pairs ...bool) string {
	withPairs := len(pairs) > 0 && pairs[0]
	tiny := len(pairs) > 1 && pairs[1]
	dropTypeof := len(pairs) > 2 && pairs[2]
	asserts, neg, extra := ex.collectAsserts(o, sg, exclude)
	if dropTypeof {
		// "nt" variant: the same query without the hypotheses that talk about dynamic
		// type tags (heap-wide type invariants and their instances). Dropping
		// hypotheses is sound; it only helps goals that do not depend on them.
		if mentionsTypeof(neg) {
			return ""
		}
		n0 := len(asserts) + len(extra)
		asserts = filterNoTypeof(asserts)
		extra = filterNoTypeof(extra)
		if len(asserts)+len(extra) == n0 {
			return ""
		}
	}
	all := append(append(append([]*Term{}, asserts...), extra...), neg)
	used := map[string]bool{}
	for _, t := range all {
		t.Walk(func(x *Term) {
			if x.IsSym {
				used[x.Op] = true
			} else if x.Op == "sid" || x.Op == "streq" {
				used["sid"] = true
			}
		})
	}
	var sb strings.Builder
	sb.WriteString(Preamble)
	ex.D.EmitFor(&sb, append(all, values...))
	eng := map[string]bool{}
	for _, n := range []string{"sconcat", "chr", "card", "subobj", "sid", "seqshift", "seqdel", "sidsetf", "joinspf"} {
		if used[n] {
			eng[n] = true
		}
	}
	if !light {
		sb.WriteString(ex.engineAxioms(eng))
	} else {
		// declarations only (the axioms are quantified)
		if eng["subobj"] {
			sb.WriteString("(declare-fun subobj.owner (Int) Int)\n(declare-fun subobj.field (Int) Int)\n")
		}
		if eng["card"] {
			sb.WriteString("(declare-fun cardwit ((Array Int Bool)) Int)\n")
		}
		if eng["sidsetf"] {
			sb.WriteString("(declare-fun sidwit ((Array Int Str) Int Int Int) Int)\n")
		}

	}
	focus := append(append([]*Term{}, sg.hyps...), neg)
	insts := preInstantiate(ex.D, append(append([]*Term{}, asserts...), extra...), focus, withPairs, o.Hints, tiny)
	var instDecl strings.Builder
	ex.D.EmitFor(&instDecl, insts)
	// only declarations not emitted yet
	have := sb.String()
	for _, l := range strings.Split(instDecl.String(), "\n") {
		if l != "" && !strings.Contains(have, l+"\n") {
			sb.WriteString(l + "\n")
		}
	}
	for _, a := range insts {
		sb.WriteString("(assert ")
		sb.WriteString(a.String())
		sb.WriteString(")\n")
	}
	for _, a := range asserts {
		if light && hasQuantStrict(a) {
			// keep the quantifier-free conjuncts of a mixed hypothesis
			if w := qfWeaken(a); w != True {
				sb.WriteString("(assert ")
				sb.WriteString(w.String())
				sb.WriteString(")\n")
			}
			continue
		}
		sb.WriteString("(assert ")
		sb.WriteString(a.String())
		sb.WriteString(")\n")
	}
	for _, a := range extra {
		if light && hasQuantStrict(a) {
			continue
		}
		sb.WriteString("(assert ")
		sb.WriteString(a.String())
		sb.WriteString(")\n")
	}
	sb.WriteString("(assert ")
	sb.WriteString(neg.String())
	sb.WriteString(")\n(check-sat)\n")
	if len(values) > 0 {
		sb.WriteString("(get-value (")
		for i, v := range values {
			if i > 0 {
				sb.WriteByte(' ')
			}
			sb.WriteString(v.String())
		}
		sb.WriteString("))\n")
	}
	return sb.String()
}

// litAxiomsAfter: byte axioms of string literals introduced after index n.
func (ex *Exec) litAxiomsAfter(n int) []*Term {
	var out []*Term
	for _, a := range ex.axioms[n:] {
		if a.Op == "=" && !a.IsSym && len(a.Args) == 2 && a.Args[0].Op == "select" && strings.HasPrefix(a.Args[0].Args[0].Op, "lit!") {
			out = append(out, a)
		}
	}
	return out
}

func sortedKeys(m map[string]bool) []string {
	var out []string
	for k := range m {
		out = append(out, k)
	}
	sort.Strings(out)
	return out
}

func (o *Obligation) String() string {
	return fmt.Sprintf("%s [%s] %s %s", o.Name, strings.Join(o.Tags, ","), o.Pos, o.Text)
}

var noCone = false

// coneOfInfluence keeps the hypotheses that can matter for the seed terms:
// a definition (= c rhs) is kept only when c is already relevant (and then
// makes the symbols of rhs relevant); any other fact is kept when it shares a
// symbol with the relevant set. Dropping hypotheses can only make an
// obligation harder to discharge, never easier.
func coneOfInfluence(pool []*Term, seed []*Term) []*Term {
	relevant := map[string]bool{}
	addSyms := func(t *Term) {
		t.Walk(func(x *Term) {
			if x.IsSym {
				relevant[x.Op] = true
			}
		})
	}
	for _, s := range seed {
		addSyms(s)
	}
	type item struct {
		t    *Term
		def  string // defined symbol, "" for plain facts
		syms []string
		in   bool
	}
	items := make([]*item, len(pool))
	for i, a := range pool {
		it := &item{t: a}
		body := a
		if !a.IsSym && a.Op == "=>" {
			body = a.Args[1]
		}
		if !body.IsSym && body.Op == "=" && len(body.Args) == 2 && body.Args[0].IsSym && len(body.Args[0].Args) == 0 {
			it.def = body.Args[0].Op
		}
		seen := map[string]bool{}
		a.Walk(func(x *Term) {
			if x.IsSym && !seen[x.Op] {
				seen[x.Op] = true
				it.syms = append(it.syms, x.Op)
			}
		})
		items[i] = it
	}
	for changed := true; changed; {
		changed = false
		for _, it := range items {
			if it.in {
				continue
			}
			take := false
			if it.def != "" {
				take = relevant[it.def]
			} else {
				for _, s := range it.syms {
					if relevant[s] {
						take = true
						break
					}
				}
				if len(it.syms) == 0 {
					take = true
				}
			}
			if take {
				it.in = true
				changed = true
				for _, s := range it.syms {
					relevant[s] = true
				}
			}
		}
	}
	var out []*Term
	for _, it := range items {
		if it.in {
			out = append(out, it.t)
		}
	}
	return out
}

// qfWeaken returns a quantifier-free formula implied by t (quantified parts
// in positive positions become true).
func qfWeaken(t *Term) *Term {
	if !hasQuantStrict(t) {
		return t
	}
	if t.IsSym {
		return True
	}
	switch t.Op {
	case "and":
		var as []*Term
		for _, a := range t.Args {
			as = append(as, qfWeaken(a))
		}
		return And(as...)
	case "=>":
		if hasQuantStrict(t.Args[0]) {
			return True
		}
		return Imp(t.Args[0], qfWeaken(t.Args[1]))
	}
	return True
}

// knownConjuncts: the quantified conjuncts asserted (possibly under a
// quantifier-free guard) among the hypotheses of an obligation.
func (ex *Exec) knownConjuncts(o *Obligation) map[string]*Term {
	known := map[string]*Term{}
	var add func(t *Term, guard *Term, depth int)
	add = func(t *Term, guard *Term, depth int) {
		if t.IsSym || depth > 4 || !hasQuantStrict(t) {
			return
		}
		switch t.Op {
		case "and":
			for _, a := range t.Args {
				add(a, guard, depth+1)
			}
			return
		case "=>":
			if !hasQuantStrict(t.Args[0]) {
				add(t.Args[1], And(guard, t.Args[0]), depth+1)
			}
		}
		if t.Op == "forall" || t.Op == "=>" {
			k := t.Canon()
			// prefer an unguarded occurrence, then one guarded by the obligation's own path
			if old, dup := known[k]; !dup || (old != True && (guard == True || (o.Path != nil && guard.String() == o.Path.String()))) {
				known[k] = guard
			}
		}
	}
	n := o.NAxioms
	if n > len(ex.axioms) {
		n = len(ex.axioms)
	}
	for _, a := range ex.axioms[:n] {
		add(a, True, 0)
	}
	return known
}

func mentionsTypeof(t *Term) bool {
	found := false
	t.Walk(func(x *Term) {
		if x.IsSym && strings.HasPrefix(x.Op, "$typeof") {
			found = true
		}
	})
	return found
}

func filterNoTypeof(ts []*Term) []*Term {
	var out []*Term
	for _, t := range ts {
		if !mentionsTypeof(t) {
			out = append(out, t)
		}
	}
	return out
}
