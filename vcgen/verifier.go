package main

import (
	"fmt"
	"go/token"
	"go/types"
	"os"
	"path/filepath"
	"sort"
	"strings"
	"sync"

	"golang.org/x/tools/go/packages"
	"golang.org/x/tools/go/ssa"
	"golang.org/x/tools/go/ssa/ssautil"
)

type Verifier struct {
	fset    *token.FileSet
	prog    *ssa.Program
	pkgs    map[string]*ssa.Package // by short name
	tpkgs   map[string]*types.Package
	db      *SpecDB
	allFns  map[string]*ssa.Function // "pkg.Key" -> function
	ids     map[string]int
	idMu    sync.Mutex
	repo    string
	ourPkgs map[string]bool
	prop    string // property being checked (selects impl directives)

	allocMu   sync.Mutex
	allocMemo map[*ssa.Function]*allocSet
}

func (V *Verifier) isOurPkg(p *types.Package) bool {
	return p != nil && V.ourPkgs[p.Path()]
}

func (V *Verifier) nameID(name string) int {
	V.idMu.Lock()
	defer V.idMu.Unlock()
	if id, ok := V.ids[name]; ok {
		return id
	}
	id := len(V.ids) + 1
	V.ids[name] = id
	return id
}

func (V *Verifier) fieldID(structName string, field int) int {
	return V.nameID(fmt.Sprintf("field:%s#%d", structName, field))
}

func (V *Verifier) fnConst(ex *Exec, fn *ssa.Function) *Term {
	key := "?"
	if fn.Pkg != nil {
		key = fn.Pkg.Pkg.Name() + "." + fnKeyOf(fn)
	} else {
		key = fn.String()
	}
	return V.fnConstByKey(ex, key)
}

func (V *Verifier) fnConstByKey(ex *Exec, key string) *Term {
	return IntLit(int64(-1000000 - V.nameID("fn:"+key)))
}

func (V *Verifier) constArr(ex *Exec, s Sort, v *Term) *Term {
	if _, isInt := v.IntVal(); isInt || v == True || v == False {
		return bi("(as const "+string(s)+")", s, v)
	}
	// non-value element (e.g. the empty string): fresh array, all entries v
	key := "constarr:" + string(s) + ":" + v.String()
	if c, ok := ex.constArrs[key]; ok {
		return c
	}
	c := ex.D.Fresh("zeros", s)
	ex.assume(Forall([]BVar{{"i!z", SInt}}, Eq(Select(c, BV("i!z", SInt)), v)))
	ex.constArrs[key] = c
	return c
}

func LoadVerifier(repo string, specFiles []string) (*Verifier, error) {
	cfg := &packages.Config{Mode: packages.LoadAllSyntax, Dir: repo, BuildFlags: []string{"-tags=verif"}}
	pkgs, err := packages.Load(cfg, "./client", "./state", "./logging")
	if err != nil {
		return nil, err
	}
	nerr := 0
	packages.Visit(pkgs, nil, func(p *packages.Package) {
		for _, e := range p.Errors {
			if nerr < 10 {
				fmt.Fprintf(os.Stderr, "load error: %v\n", e)
			}
			nerr++
		}
	})
	if nerr > 0 {
		return nil, fmt.Errorf("%d errors loading packages from %s", nerr, repo)
	}
	prog, spkgs := ssautil.AllPackages(pkgs, ssa.NaiveForm|ssa.GlobalDebug)
	prog.Build()
	V := &Verifier{fset: prog.Fset, prog: prog, pkgs: map[string]*ssa.Package{}, tpkgs: map[string]*types.Package{},
		db: NewSpecDB(), allFns: map[string]*ssa.Function{}, ids: map[string]int{}, repo: repo, ourPkgs: map[string]bool{}}
	for _, p := range spkgs {
		if p != nil {
			V.ourPkgs[p.Pkg.Path()] = true
		}
	}
	for _, p := range prog.AllPackages() {
		name := p.Pkg.Name()
		if old, dup := V.pkgs[name]; dup {
			// prefer goirc's own packages, then shorter paths
			if V.ourPkgs[old.Pkg.Path()] || len(old.Pkg.Path()) <= len(p.Pkg.Path()) {
				continue
			}
		}
		V.pkgs[name] = p
		V.tpkgs[name] = p.Pkg
	}
	for fn := range ssautil.AllFunctions(prog) {
		if fn.Pkg == nil {
			continue
		}
		name := fn.Pkg.Pkg.Name()
		if V.pkgs[name] != fn.Pkg {
			continue
		}
		V.allFns[name+"."+fnKeyOf(fn)] = fn
	}
	// contract files in the repository (build tag verif, comment-only)
	for _, dir := range []string{"client", "state", "logging"} {
		matches, _ := filepath.Glob(filepath.Join(repo, dir, "verif_*.go"))
		sort.Strings(matches)
		for _, m := range matches {
			if err := V.db.LoadSpecFile(m, false); err != nil {
				return nil, err
			}
		}
	}
	for _, f := range specFiles {
		if err := V.db.LoadSpecFile(f, true); err != nil {
			return nil, err
		}
	}
	return V, nil
}

// specType resolves a type name of the contract language.
func (V *Verifier) specType(name string, pkg *types.Package) types.Type {
	switch name {
	case "int", "byte", "int64":
		return tyInt
	case "bool":
		return tyBool
	case "string":
		return tyStr
	case "seq":
		return tySeq
	case "event":
		return tyEvent
	case "ref", "error", "any":
		return tyRef
	case "set":
		return tySet
	case "imap":
		return tyIMap
	case "smap":
		return tySMap
	case "seqmap":
		return tyQMap
	case "trace":
		return tyTrace
	case "":
		return types.NewTuple()
	}
	if strings.HasPrefix(name, "*") {
		return types.NewPointer(V.specType(name[1:], pkg))
	}
	if strings.HasPrefix(name, "[]") {
		return types.NewSlice(V.specType(name[2:], pkg))
	}
	if strings.HasPrefix(name, "map[") {
		depth := 0
		for i := 3; i < len(name); i++ {
			if name[i] == '[' {
				depth++
			} else if name[i] == ']' {
				depth--
				if depth == 0 {
					return types.NewMap(V.specType(name[4:i], pkg), V.specType(name[i+1:], pkg))
				}
			}
		}
	}
	if t := V.lookupType(name, pkg); t != nil {
		return t
	}
	panic("spec:unknown type " + name)
}

func (V *Verifier) lookupType(name string, pkg *types.Package) types.Type {
	if i := strings.Index(name, "."); i >= 0 {
		p := V.tpkgs[name[:i]]
		if p == nil {
			return nil
		}
		pkg, name = p, name[i+1:]
	}
	if pkg == nil {
		return nil
	}
	if obj, ok := pkg.Scope().Lookup(name).(*types.TypeName); ok {
		return obj.Type()
	}
	return nil
}

// typeOfSpecExpr: the type named by ident T or pkg.T, if the expression is one.
func (V *Verifier) typeOfSpecExpr(e SExpr, pkg *types.Package, isVar func(string) bool) types.Type {
	switch x := e.(type) {
	case *SIdent:
		if isVar != nil && isVar(x.Name) {
			return nil
		}
		return V.lookupType(x.Name, pkg)
	case *SSel:
		if id, ok := x.X.(*SIdent); ok {
			if isVar != nil && isVar(id.Name) {
				return nil
			}
			if _, isPkg := V.tpkgs[id.Name]; isPkg {
				return V.lookupType(id.Name+"."+x.Name, pkg)
			}
		}
	}
	return nil
}

// contractFor finds the contract and the naming information of a call.
func (V *Verifier) contractFor(ex *Exec, c *ssa.CallCommon) (*FuncSpec, calleeInfo) {
	info := calleeInfo{sig: c.Signature()}
	sigNames := func(sig *types.Signature) (ps, rs []string) {
		for i := 0; i < sig.Params().Len(); i++ {
			ps = append(ps, sig.Params().At(i).Name())
		}
		for i := 0; i < sig.Results().Len(); i++ {
			rs = append(rs, sig.Results().At(i).Name())
		}
		return
	}
	switch {
	case c.IsInvoke():
		recvT := c.Value.Type()
		tn := "?"
		pkgName := "builtin"
		if n, ok := recvT.(*types.Named); ok {
			tn = n.Obj().Name()
			if n.Obj().Pkg() != nil {
				pkgName = n.Obj().Pkg().Name()
				info.pkg = n.Obj().Pkg()
			}
		}
		info.key = pkgName + ".(" + tn + ")." + c.Method.Name()
		ps, rs := sigNames(c.Method.Type().(*types.Signature))
		info.names = append([]string{"recv"}, ps...)
		info.resNames = rs
		// interface resolved to its (assumed) implementation under this property
		if im, ok := V.db.Impls[pkgName+".("+tn+")"]; ok && hasTag(im.Tags, V.prop) {
			ckey := im.Concrete + "." + c.Method.Name()
			if fn := V.allFns[ckey]; fn != nil && V.db.Funcs[ckey] != nil {
				info.key = ckey
				info.fn = fn
				info.pkg = fn.Pkg.Pkg
				info.names = nil
				for _, p := range fn.Params {
					info.names = append(info.names, p.Name())
				}
				_, info.resNames = sigNames(fn.Signature)
				info.unwrap = fn.Params[0].Type()
			}
		}
	case c.StaticCallee() != nil:
		fn := c.StaticCallee()
		info.fn = fn
		if _, isClosure := c.Value.(*ssa.MakeClosure); isClosure {
			info.closure = c.Value
		}
		if fn.Pkg != nil {
			info.key = fn.Pkg.Pkg.Name() + "." + fnKeyOf(fn)
			info.pkg = fn.Pkg.Pkg
		} else if fn.Parent() != nil && fn.Parent().Pkg != nil {
			info.key = fn.Parent().Pkg.Pkg.Name() + "." + fnKeyOf(fn)
			info.pkg = fn.Parent().Pkg.Pkg
		} else {
			info.key = "synthetic." + fn.String()
		}
		for _, p := range fn.Params {
			info.names = append(info.names, p.Name())
		}
		_, info.resNames = sigNames(fn.Signature)
	default:
		// dynamic call through a function value
		info.key = "dynamic." + c.Value.Name()
		v := c.Value
		if u, ok := v.(*ssa.UnOp); ok && u.Op == token.MUL {
			if fa, ok := u.X.(*ssa.FieldAddr); ok {
				st, named, ok := derefStruct(fa.X.Type())
				if ok {
					info.key = structPkg(named) + ".field:" + shortStruct(named) + "." + st.Field(fa.Field).Name()
					info.pkg = pkgOfType(named)
				}
			}
		}
		if p, ok := v.(*ssa.Parameter); ok {
			if n, ok := p.Type().(*types.Named); ok && n.Obj().Pkg() != nil {
				info.key = n.Obj().Pkg().Name() + ".functype:" + n.Obj().Name()
				info.pkg = n.Obj().Pkg()
			}
		}
		if ex != nil {
			if fn := ex.closureFn[v]; fn != nil {
				info.key = ex.fn.Pkg.Pkg.Name() + "." + fnKeyOf(fn)
				info.pkg = ex.fn.Pkg.Pkg
			}
		}
		ps, rs := sigNames(c.Signature())
		info.names, info.resNames = ps, rs
	}
	return V.db.Funcs[info.key], info
}

func pkgOfType(t types.Type) *types.Package {
	if n, ok := t.(*types.Named); ok {
		return n.Obj().Pkg()
	}
	return nil
}

func structPkg(t types.Type) string {
	if p := pkgOfType(t); p != nil {
		return p.Name()
	}
	return "anon"
}

func shortStruct(t types.Type) string {
	if n, ok := t.(*types.Named); ok {
		return n.Obj().Name()
	}
	return "anon"
}

// modifiesNames: heap components a call with this contract may change.
func (V *Verifier) modifiesNames(ex *Exec, spec *FuncSpec, c *ssa.CallCommon) []string {
	var out []string
	if spec.Attrs["pure"] != "true" {
		out = append(out, "$nextref")
		ex.noteHeap("$nextref", SInt)
		if _, touched := ex.heapSort["$typeof"]; touched {
			out = append(out, "$typeof")
		}
	}
	if spec.Attrs["maypanic"] == "true" {
		out = append(out, "$panicking")
		ex.noteHeap("$panicking", SBool)
	}
	_, info := V.contractFor(ex, c)
	// parameter types by name
	ptypes := map[string]types.Type{}
	var ts []types.Type
	sig := c.Signature()
	if c.IsInvoke() {
		ts = append(ts, c.Value.Type())
	} else if sig.Recv() != nil {
		ts = append(ts, sig.Recv().Type())
	}
	for i := 0; i < sig.Params().Len(); i++ {
		ts = append(ts, sig.Params().At(i).Type())
	}
	names := info.names
	if len(spec.Params) > 0 {
		names = nil
		for _, p := range spec.Params {
			names = append(names, p.Name)
		}
	}
	for i, n := range names {
		if i < len(ts) {
			ptypes[n] = ts[i]
		}
	}
	for i := 0; i < sig.Results().Len(); i++ {
		ptypes[fmt.Sprintf("result%d", i)] = sig.Results().At(i).Type()
		if sig.Results().Len() == 1 {
			ptypes["result"] = sig.Results().At(0).Type()
		}
		if i < len(spec.Results) {
			ptypes[spec.Results[i].Name] = sig.Results().At(i).Type()
		}
		if n := sig.Results().At(i).Name(); n != "" {
			ptypes[n] = sig.Results().At(i).Type()
		}
	}
	var staticType func(e SExpr) types.Type
	staticType = func(e SExpr) types.Type {
		switch x := e.(type) {
		case *SIdent:
			return ptypes[x.Name]
		case *SSel:
			bt := staticType(x.X)
			if bt == nil {
				return nil
			}
			st, _, ok := derefStruct(bt)
			if !ok {
				return nil
			}
			for i := 0; i < st.NumFields(); i++ {
				if st.Field(i).Name() == x.Name {
					return st.Field(i).Type()
				}
			}
		case *SOld:
			return staticType(x.X)
		}
		return nil
	}
	for _, cl := range spec.Clauses {
		if cl.Kind != "modifies" {
			continue
		}
		for _, e := range cl.Exprs {
			switch x := e.(type) {
			case *SIdent:
				if x.Name == "heap" {
					out = append(out, "*heap")
					continue
				}
				if V.db.IsTrace(x.Name) {
					out = append(out, x.Name, x.Name+"len", "$seq")
					ex.noteHeap("$seq", SInt)
					ex.noteHeap(x.Name, ArrS(SInt, SEvent))
					ex.noteHeap(x.Name+"len", SInt)
					continue
				}
				switch x.Name {
				case "$held", "$wg":
					out = append(out, x.Name)
					ex.noteHeap(x.Name, ArrS(SInt, SInt))
				case "$panicking":
					out = append(out, x.Name)
					ex.noteHeap(x.Name, SBool)
				default:
					if tn, ok := V.db.Ghosts[x.Name]; ok {
						out = append(out, x.Name)
						ex.noteHeap(x.Name, sortOf(V.specType(tn, ex.pkg)))
					} else {
						ex.fail("modifies %s: unknown ghost", x.Name)
					}
				}
			case *SSel:
				owner := V.typeOfSpecExpr(x.X, info.pkg, func(n string) bool { return ptypes[n] != nil })
				if owner == nil {
					owner = staticType(x.X)
				}
				if owner == nil {
					ex.fail("modifies %s: cannot type the target", show(e))
					continue
				}
				st, named, ok := derefStruct(owner)
				if !ok {
					ex.fail("modifies %s: not a struct", show(e))
					continue
				}
				for i := 0; i < st.NumFields(); i++ {
					if st.Field(i).Name() == x.Name {
						n := heapFieldName(named, x.Name)
						out = append(out, n)
						ex.noteHeap(n, ArrS(SInt, sortOf(st.Field(i).Type())))
					}
				}
			case *SCall:
				if x.Fn == "mapsof" {
					if id0, ok := x.Args[0].(*SStrLit); ok {
						id := &SIdent{id0.Val}
						if tmt, isMap := V.specType(id.Name, info.pkg).Underlying().(*types.Map); isMap {
							vs := sortOf(tmt.Elem())
							out = append(out, mapDomName(tmt), mapValName(tmt))
							ex.noteHeap(mapDomName(tmt), ArrS(SInt, ArrS(SInt, SBool)))
							ex.noteHeap(mapValName(tmt), ArrS(SInt, ArrS(SInt, vs)))
						}
					}
					continue
				}
				t := staticType(x.Args[0])
				if t == nil {
					ex.fail("modifies %s: cannot type the target", show(e))
					continue
				}
				switch x.Fn {
				case "elems":
					aet := t.Underlying().(*types.Slice).Elem()
					es := sortOf(aet)
					out = append(out, heapArrName(aet))
					ex.noteHeap(heapArrName(aet), ArrS(SInt, ArrS(SInt, es)))
				case "entries":
					tmt := t.Underlying().(*types.Map)
					vs := sortOf(tmt.Elem())
					out = append(out, mapDomName(tmt), mapValName(tmt))
					ex.noteHeap(mapDomName(tmt), ArrS(SInt, ArrS(SInt, SBool)))
					ex.noteHeap(mapValName(tmt), ArrS(SInt, ArrS(SInt, vs)))
				}
			}
		}
	}
	return out
}

func (ex *Exec) noteHeap(name string, s Sort) {
	if _, ok := ex.heapSort[name]; !ok {
		ex.heapSort[name] = s
	}
}

// NewExec prepares the verification of one function.
func (V *Verifier) NewExec(fn *ssa.Function, spec *FuncSpec) *Exec {
	ex := &Exec{
		V: V, fn: fn, spec: spec, D: NewDecls(), pkg: fn.Pkg.Pkg,
		vals: map[ssa.Value]Val{}, outState: map[*ssa.BasicBlock]*State{}, reach: map[*ssa.BasicBlock]*Term{},
		heapSort: map[string]Sort{}, params: map[string]Val{}, paramTy: map[string]types.Type{},
		lets: map[string]Val{}, ghosts: map[string]Val{}, ghostTy: map[string]types.Type{},
		counters: map[string]int{}, lits: map[string]*Term{}, closures: map[ssa.Value][]Val{},
		closureFn: map[ssa.Value]*ssa.Function{}, iterMaps: map[ssa.Value]iterInfo{}, iterName: map[ssa.Value]string{},
		iterLoop: map[string]*ssa.BasicBlock{}, localName: map[string]*ssa.Alloc{},
		freeVarVals: map[*ssa.FreeVar]Val{}, ifaceSrc: map[string]ifaceOrigin{}, ifacePayload: map[string]Val{},
		usedSpecs: map[string]bool{}, usedSpecFns: map[string]bool{}, usedAx: map[string]bool{},
		constArrs: map[string]*Term{}, concatPrefix: map[string]string{}, callCount: map[string]int{}, rawElemTy: map[string]types.Type{}, logicalCache: map[string]Val{},
	}
	if spec != nil {
		ex.safety = len(spec.Safety) > 0
		ex.arithChk = spec.Attrs["arith"] == "checked"
	}
	return ex
}

// Verify runs the executor and returns the obligations of the function.
func (V *Verifier) Verify(fn *ssa.Function, spec *FuncSpec) (ex *Exec, err error) {
	ex = V.NewExec(fn, spec)
	defer func() {
		if r := recover(); r != nil {
			if s, ok := r.(string); ok && strings.HasPrefix(s, "spec:") {
				err = fmt.Errorf("contract error in %s: %s", spec.Key, s[5:])
				return
			}
			panic(r)
		}
	}()
	ex.run()
	return ex, nil
}
