package main

import (
	"fmt"
	"go/token"
	"go/types"
	"sort"
	"strings"

	"golang.org/x/tools/go/ssa"
)

// ghost event kinds
const (
	evSend = iota + 1
	evRecv
	evSpawn
	evLock
	evUnlock
	evRLock
	evRUnlock
	evWgAdd
	evWgDone
	evWgWait
	evExt     // external effect (socket write, close, dial, sleep, cancel ...): eobj = effect id
	evHandler // user handler invocation: eobj = handler node / handler value, eobj2 = line
	evLog     // logging call: estr = format, eobj2.. payloads are separate events
	evLogArg  // one per string argument handed to the logger
	evDispatch
)

var eventKindByName = map[string]int{
	"send": evSend, "recv": evRecv, "spawn": evSpawn, "lock": evLock, "unlock": evUnlock,
	"rlock": evRLock, "runlock": evRUnlock, "wgadd": evWgAdd, "wgdone": evWgDone, "wgwait": evWgWait,
	"ext": evExt, "handler": evHandler, "log": evLog, "logarg": evLogArg, "dispatch": evDispatch,
}

func (ex *Exec) mkEvent(kind int, obj *Term, str *Term, i *Term, obj2 *Term) *Term {
	if obj == nil {
		obj = IntLit(0)
	}
	if str == nil {
		str = ex.emptyStr()
	}
	if i == nil {
		i = IntLit(0)
	}
	if obj2 == nil {
		obj2 = IntLit(0)
	}
	return MkEvent(IntLit(int64(kind)), obj, str, i, obj2, IntLit(0))
}

func (ex *Exec) chanEvent(kind int, ch *Term, v Val) *Term {
	var str, i, o2 *Term
	if v.T != nil {
		switch v.T.S {
		case SStr:
			str = v.T
		case SInt:
			o2 = v.T
		case SBool:
			i = Ite(v.T, IntLit(1), IntLit(0))
		}
	}
	return ex.mkEvent(kind, ch, str, i, o2)
}

// emit appends a ghost event to the main trace.
func (ex *Exec) emit(ev *Term) { ex.emitTo("$tr", ev) }

func (ex *Exec) emitTo(trace string, ev *Term) {
	// stamp the event with the global sequence number (order across traces)
	seq := ex.getHeap(ex.cur, "$seq", SInt)
	if ev.Op == "mkev" && !ev.IsSym {
		ev = MkEvent(ev.Args[0], ev.Args[1], ev.Args[2], ev.Args[3], ev.Args[4], seq)
	} else {
		ev = MkEvent(EvKind(ev), EvObj(ev), EvStr(ev), EvInt(ev), EvObj2(ev), seq)
	}
	ex.setHeap(ex.cur, "$seq", ex.named("$seq", Add(seq, IntLit(1))))
	tr := ex.getHeap(ex.cur, trace, ArrS(SInt, SEvent))
	n := ex.getHeap(ex.cur, trace+"len", SInt)
	ex.setHeap(ex.cur, trace, ex.named(trace, Store(tr, n, ev)))
	ex.setHeap(ex.cur, trace+"len", ex.named(trace+"len", Add(n, IntLit(1))))
}

// ---------------------------------------------------------------------------

func (ex *Exec) stepGo(x *ssa.Go) {
	c := x.Common()
	var args []Val
	var fnid *Term
	var recv *Term
	if c.IsInvoke() {
		args = append(args, ex.val(c.Value))
		fnid = IntLit(int64(ex.V.nameID("invoke:" + c.Method.FullName())))
	} else if fn := c.StaticCallee(); fn != nil {
		fnid = IntLit(int64(ex.V.nameID("fn:" + fn.Pkg.Pkg.Name() + "." + fnKeyOf(fn))))
		if mc, ok := c.Value.(*ssa.MakeClosure); ok {
			_ = mc
		}
	} else {
		fnid = ex.val(c.Value).T
	}
	for _, a := range c.Args {
		args = append(args, ex.val(a))
	}
	if len(args) > 0 && args[0].T != nil && args[0].T.S == SInt {
		recv = args[0].T
	}
	var a2 *Term
	if len(args) > 1 && args[1].T != nil && args[1].T.S == SInt {
		a2 = args[1].T
	}
	ex.emit(ex.mkEvent(evSpawn, fnid, nil, a2, recv))
	// the spawned function's precondition must hold at the spawn point; a new
	// goroutine starts without holding any lock ($held is per goroutine)
	if spec, info := ex.V.contractFor(ex, c); spec != nil {
		saved := ex.cur
		ex.cur = saved.clone()
		ex.setHeap(ex.cur, "$held", ex.V.constArr(ex, ArrS(SInt, SInt), IntLit(0)))
		ex.checkCallPre(spec, info, c, args, x.Pos())
		ex.cur = saved
	} else if ex.closureFn[c.Value] == nil {
		ex.fail("go statement with callee lacking a contract: %s", c.String())
	}
}

func (ex *Exec) stepDefer(x *ssa.Defer) {
	if len(ex.curLoops) > 0 {
		ex.fail("defer inside a loop")
	}
	c := x.Common()
	d := deferred{instr: x, guard: ex.pc}
	if !c.IsInvoke() && c.StaticCallee() == nil {
		d.fnval = ex.val(c.Value)
	} else if c.IsInvoke() {
		d.fnval = ex.val(c.Value)
	}
	for _, a := range c.Args {
		d.args = append(d.args, ex.val(a))
	}
	ex.defers = append(ex.defers, d)
}

func (ex *Exec) stepRunDefers(x *ssa.RunDefers) {
	for i := len(ex.defers) - 1; i >= 0; i-- {
		d := ex.defers[i]
		savedPc := ex.pc
		guardIsTrivial := d.guard == True || d.guard == ex.reach[ex.fn.Blocks[0]]
		before := ex.cur.clone()
		if !guardIsTrivial {
			ex.pc = And(ex.pc, d.guard)
		}
		ex.callWith(d.instr.Common(), d.instr, d.instr.Pos(), d.args, &d.fnval)
		ex.pc = savedPc
		if !guardIsTrivial {
			// merge: effects only happened if the defer statement was executed
			for k, after := range ex.cur.heap {
				b := ex.getHeap(before, k, after.S)
				if b != after {
					c := ex.D.Fresh(k+"@defer", after.S)
					ex.assume(Eq(c, Ite(d.guard, after, b)))
					ex.cur.heap[k] = c
				}
			}
		}
	}
}

func (ex *Exec) stepSelect(x *ssa.Select) {
	n := len(x.States)
	idx := ex.D.Fresh(x.Name()+".idx", SInt)
	lo := IntLit(0)
	if !x.Blocking {
		lo = IntLit(-1)
	}
	ex.assume(And(Le(lo, idx), Lt(idx, IntLit(int64(n)))))
	res := Val{Ty: x.Type()}
	res.Fs = append(res.Fs, Val{T: idx, Ty: tyInt})
	res.Fs = append(res.Fs, Val{T: ex.D.Fresh(x.Name()+".ok", SBool), Ty: tyBool})
	var ev *Term
	for i, s := range x.States {
		ch := ex.val(s.Chan)
		var e *Term
		if s.Dir == types.RecvOnly {
			et := s.Chan.Type().Underlying().(*types.Chan).Elem()
			v := ex.freshVal(fmt.Sprintf("%s.recv%d", x.Name(), i), et)
			if v.T != nil {
				ex.assumeAllocated(v.T, et, ex.cur)
			}
			res.Fs = append(res.Fs, v)
			e = ex.chanEvent(evRecv, ch.T, v)
			ex.chanInvRecv(s.Chan, v)
		} else {
			e = ex.chanEvent(evSend, ch.T, ex.val(s.Send))
			ex.chanInvSend(s.Chan, ex.val(s.Send), x.Pos())
		}
		if ev == nil {
			ev = e
		} else {
			ev = Ite(Eq(idx, IntLit(int64(i))), e, ev)
		}
	}
	if ev != nil {
		if x.Blocking {
			ex.emit(ev)
		} else {
			tr := ex.getHeap(ex.cur, "$tr", ArrS(SInt, SEvent))
			nl := ex.getHeap(ex.cur, "$trlen", SInt)
			seq := ex.getHeap(ex.cur, "$seq", SInt)
			ev = MkEvent(EvKind(ev), EvObj(ev), EvStr(ev), EvInt(ev), EvObj2(ev), seq)
			ex.setHeap(ex.cur, "$seq", ex.named("$seq", Add(seq, IntLit(1))))
			ex.setHeap(ex.cur, "$tr", ex.named("$tr", Ite(Ge(idx, IntLit(0)), Store(tr, nl, ev), tr)))
			ex.setHeap(ex.cur, "$trlen", ex.named("$trlen", Ite(Ge(idx, IntLit(0)), Add(nl, IntLit(1)), nl)))
		}
	}
	ex.setVal(x, res)
}

// ---------------------------------------------------------------------------
// calls

type calleeInfo struct {
	key      string
	sig      *types.Signature
	fn       *ssa.Function // static callee if any
	names    []string      // parameter names (receiver first for methods)
	resNames []string
	pkg      *types.Package
	closure  ssa.Value // the MakeClosure value when a closure is called / spawned
	unwrap   types.Type // impl directive: the concrete receiver type the interface value is assumed to hold
}

func (ex *Exec) doCall(c *ssa.CallCommon, instr ssa.Instruction, pos token.Pos) Val {
	var args []Val
	if c.IsInvoke() {
		args = append(args, ex.val(c.Value))
	}
	for _, a := range c.Args {
		args = append(args, ex.val(a))
	}
	return ex.callWith(c, instr, pos, args, nil)
}

func (ex *Exec) resultType(c *ssa.CallCommon) types.Type {
	sig := c.Signature()
	switch sig.Results().Len() {
	case 0:
		return types.NewTuple()
	case 1:
		return sig.Results().At(0).Type()
	}
	return sig.Results()
}

func (ex *Exec) callWith(c *ssa.CallCommon, instr ssa.Instruction, pos token.Pos, args []Val, fnval *Val) Val {
	if c.IsInvoke() && len(args) == len(c.Args) {
		// deferred invoke: receiver saved separately
		if fnval != nil {
			args = append([]Val{*fnval}, args...)
		}
	}
	if b, ok := c.Value.(*ssa.Builtin); ok {
		return ex.callBuiltin(b, c, args, pos)
	}
	rt := ex.resultType(c)
	if fn := c.StaticCallee(); fn != nil && fn.Pkg != nil && strings.HasSuffix(fn.Pkg.Pkg.Path(), "goirc/logging") {
		switch fn.Name() {
		case "Debug", "Info", "Warn", "Error":
			ex.logCall(c, args)
			return Val{Ty: rt}
		}
	}
	spec, info := ex.V.contractFor(ex, c)
	if spec == nil {
		ex.fail("call to %s without a contract (%s)", info.key, ex.posOf(pos))
		return ex.freshVal("nocontract", rt)
	}
	if c.IsInvoke() {
		if spec.Attrs["maypanic"] != "true" {
			ex.panicCheck("nil", Neq(args[0].T, IntLit(0)), pos, "method call on nil interface "+describe(c.Value))
		}
		if info.unwrap != nil {
			args = append([]Val{ex.unwrapIface(args[0], info.unwrap)}, args[1:]...)
		}
	} else if c.StaticCallee() == nil {
		fv := ex.val(c.Value)
		if fnval != nil {
			fv = *fnval
		}
		if fv.T != nil {
			ex.panicCheck("nil", Neq(fv.T, IntLit(0)), pos, "call of nil function "+describe(c.Value))
		}
	}
	return ex.applyContract(spec, info, c, args, rt, pos)
}

func (ex *Exec) calleeEnv(spec *FuncSpec, info calleeInfo, args []Val, st, old *State) *Env {
	env := &Env{ex: ex, st: st, old: old, vars: map[string]Val{}, callee: true, pkg: info.pkg, spec: spec}
	names := info.names
	if len(spec.Params) > 0 {
		names = nil
		for _, p := range spec.Params {
			names = append(names, p.Name)
		}
	}
	if len(names) != len(args) {
		// variadic or unnamed: bind positionally
		for i := range args {
			env.vars[fmt.Sprintf("arg%d", i)] = args[i]
		}
		if len(names) > len(args) {
			names = names[:len(args)]
		}
	}
	for i, n := range names {
		if n != "" && n != "_" && i < len(args) {
			env.vars[n] = args[i]
		}
		env.vars[fmt.Sprintf("arg%d", i)] = args[i]
	}
	// logical variables of the callee (ghost without initial value): the
	// caller's ghost of the same name instantiates them; otherwise they are
	// arbitrary (and a precondition that constrains them cannot be proved)
	for _, cl := range spec.Clauses {
		if cl.Kind == "ghost" && cl.Expr == nil {
			if g, ok := ex.ghosts[cl.Name]; ok && !ex.inCalleeOnly {
				env.vars[cl.Name] = g
			} else {
				key := fmt.Sprintf("%p/%s", spec, cl.Name)
				if v, ok := ex.logicalCache[key]; ok {
					env.vars[cl.Name] = v
				} else {
					v := ex.freshVal("lv."+cl.Name, ex.V.specType(cl.Type, info.pkg))
					ex.logicalCache[key] = v
					env.vars[cl.Name] = v
				}
			}
		}
	}
	// captured variables of a closure: their current values at the call / spawn
	if info.fn != nil && len(info.fn.FreeVars) > 0 && info.closure != nil {
		binds := ex.closures[info.closure]
		for i, fv := range info.fn.FreeVars {
			if i < len(binds) && binds[i].Loc != nil {
				env.vars[fv.Name()] = ex.load(st, binds[i].Loc)
			}
		}
	}
	return env
}

// callOrdinal: the 1-based position of this call among the calls of the same
// callee in the function, in source order (so that "call K 2" in a contract
// means the second call of K as the code is written, whatever order the
// blocks are visited in).
func (ex *Exec) callOrdinal(c *ssa.CallCommon, key string) int {
	if ex.callOrd == nil {
		ex.callOrd = map[*ssa.CallCommon]int{}
		byKey := map[string][]*ssa.CallCommon{}
		for _, b := range ex.fn.Blocks {
			for _, in := range b.Instrs {
				if ci, ok := in.(ssa.CallInstruction); ok {
					cc := ci.Common()
					if _, isB := cc.Value.(*ssa.Builtin); isB {
						continue
					}
					_, info := ex.V.contractFor(ex, cc)
					byKey[info.key] = append(byKey[info.key], cc)
				}
			}
		}
		for _, cs := range byKey {
			sort.SliceStable(cs, func(i, j int) bool { return cs[i].Pos() < cs[j].Pos() })
			for i, cc := range cs {
				ex.callOrd[cc] = i + 1
			}
		}
	}
	return ex.callOrd[c]
}

func firstIntLit(es []SExpr) (*SIntLit, bool) {
	if len(es) == 1 {
		l, ok := es[0].(*SIntLit)
		return l, ok
	}
	return nil, false
}

// calleeGhosts binds the callee's ghost outputs (bind / ghost clauses) to
// fresh values: for the caller they are existentially quantified.
func (ex *Exec) calleeGhosts(spec *FuncSpec, info calleeInfo, env *Env) {
	for _, cl := range spec.Clauses {
		if cl.Kind == "bind" {
			t := ex.V.specType(strings.TrimPrefix(cl.Type, "before:"), info.pkg)
			env.vars[cl.Name] = ex.freshVal("cg."+cl.Name, t)
		}
	}
	// locals of the callee that its postconditions mention (e.g. a WaitGroup it
	// allocates): existentially quantified for the caller
	if info.fn != nil {
		mentioned := ""
		for _, cl := range spec.Clauses {
			if cl.Kind == "ensures" || cl.Kind == "maintains" {
				mentioned += " " + cl.Text
			}
		}
		for _, b := range info.fn.Blocks {
			for _, in := range b.Instrs {
				a, ok := in.(*ssa.Alloc)
				if !ok || a.Comment == "" {
					continue
				}
				if _, bound := env.vars[a.Comment]; bound || !strings.Contains(mentioned, a.Comment) {
					continue
				}
				et := a.Type().(*types.Pointer).Elem()
				if isStructVal(et) {
					et = a.Type()
				}
				s := sortOf(et)
				if s == SInt || s == SBool || s == SStr || s == SSlice {
					env.vars[a.Comment] = ex.freshVal("cl."+a.Comment, et)
				}
			}
		}
	}
	// loop ghosts that the callee's postconditions mention (witnesses)
	for _, l := range spec.Loops {
		for _, cl := range l.Clauses {
			if cl.Kind == "ghost" {
				t := ex.V.specType(cl.Type, info.pkg)
				env.vars[cl.Name] = ex.freshVal("cg."+cl.Name, t)
			}
		}
	}
}

func (ex *Exec) checkCallPre(spec *FuncSpec, info calleeInfo, c *ssa.CallCommon, args []Val, pos token.Pos) {
	env := ex.calleeEnv(spec, info, args, ex.cur, ex.cur)
	for _, cl := range spec.Clauses {
		switch cl.Kind {
		case "let":
			env.vars[cl.Name] = ex.evalSpec(cl.Expr, env)
		case "requires":
			g := ex.evalSpec(cl.Expr, env)
			tags := cl.Tags
			if len(tags) == 0 {
				tags = spec.Props
			}
			ex.oblige("call:"+shortKey(info.key)+"/pre", tags, g.T, pos, "precondition of "+info.key+": "+cl.Text)
			ex.assumeHere(g.T)
		}
	}
}

func shortKey(k string) string {
	if i := strings.LastIndex(k, "/"); i >= 0 {
		k = k[i+1:]
	}
	return k
}

func (ex *Exec) applyContract(spec *FuncSpec, info calleeInfo, c *ssa.CallCommon, args []Val, rt types.Type, pos token.Pos) Val {
	ex.usedSpecs[info.key] = true
	// "callpre K n expr": a fact the caller establishes just before this call
	if ex.spec != nil {
		for _, cl := range ex.spec.Clauses {
			if cl.Kind == "callpre" && cl.Name == fmt.Sprintf("%s %d", info.key, ex.callOrdinal(c, info.key)) {
				aenv := ex.envAt(ex.cur, nil)
				for i, a := range args {
					aenv.vars[fmt.Sprintf("arg%d", i)] = a
				}
				g := ex.evalSpec(cl.Expr, aenv)
				ex.oblige("callpre:"+shortKey(info.key), ex.tagsOf(cl), g.T, pos, cl.Text)
				ex.assumeHere(g.T)
			}
		}
	}
	ex.checkCallPre(spec, info, c, args, pos)
	// "bind g T := before K n expr": expr over the state just before the call,
	// with the call's arguments available as arg0, arg1, ...
	if ex.spec != nil {
		for _, cl := range ex.spec.Clauses {
			if cl.Kind == "bind" && strings.HasPrefix(cl.Type, "before:") && cl.Text == fmt.Sprintf("%s %d", info.key, ex.callOrdinal(c, info.key)) {
				env := ex.envAt(ex.cur, nil)
				for i, a := range args {
					env.vars[fmt.Sprintf("arg%d", i)] = a
				}
				v := ex.evalSpec(cl.Expr, env)
				t := ex.V.specType(strings.TrimPrefix(cl.Type, "before:"), ex.pkg)
				v.Ty = t
				if old, ok := ex.ghosts[cl.Name]; ok && old.T != nil && v.T != nil && ex.pc != True {
					c := ex.D.Fresh("g."+cl.Name, v.T.S)
					ex.assume(Eq(c, Ite(ex.pc, v.T, old.T)))
					v.T = c
				}
				ex.ghosts[cl.Name] = v
				ex.ghostTy[cl.Name] = t
			}
		}
	}
	pre := ex.cur.clone()
	post := ex.cur
	// results
	res := ex.freshVal("ret."+shortKey(info.key), rt)
	// modifies
	env := ex.calleeEnv(spec, info, args, pre, pre)
	ex.calleeGhosts(spec, info, env)
	ex.bindResults(env, spec, info, res, rt)
	for _, cl := range spec.Clauses {
		if cl.Kind == "let" {
			env.vars[cl.Name] = ex.evalSpec(cl.Expr, env)
		}
	}
	pure := spec.Attrs["pure"] == "true"
	if !pure {
		nr := ex.D.Fresh("$nextref", SInt)
		ex.assume(Ge(nr, ex.getHeap(pre, "$nextref", SInt)))
		ex.setHeap(post, "$nextref", nr)
		// objects allocated by the callee get their type tags; existing tags stay.
		// Unallocated references carry tag 0, so a callee that allocates no
		// goirc struct object (trusted code, or an empty may-allocate set)
		// leaves $typeof as it is.
		var as *allocSet
		if !spec.Trusted {
			if fn := c.StaticCallee(); fn != nil && !c.IsInvoke() {
				as = ex.V.mayAlloc(fn)
			} else if info.unwrap != nil && info.fn != nil {
				as = ex.V.mayAlloc(info.fn)
			}
		}
		noTags := spec.Trusted || (as != nil && !as.unknown && len(as.tags) == 0)
		if _, touched := ex.heapSort["$typeof"]; touched && !noTags {
			pt := ex.getHeap(pre, "$typeof", ArrS(SInt, SInt))
			nt := ex.D.Fresh("$typeof", ArrS(SInt, SInt))
			r := BV("r!ty", SInt)
			ex.assume(Forall([]BVar{{"r!ty", SInt}}, Imp(Lt(r, ex.getHeap(pre, "$nextref", SInt)), Eq(Select(nt, r), Select(pt, r)))))
			ex.assume(Forall([]BVar{{"r!ty", SInt}}, Imp(Ge(r, nr), Eq(Select(nt, r), IntLit(0)))))
			// new objects only get tags of struct types the callee may allocate
			if as != nil && !as.unknown {
				ex.assume(Forall([]BVar{{"r!ty", SInt}}, Imp(Ge(r, ex.getHeap(pre, "$nextref", SInt)), as.tagIn(Select(nt, r)))))
			}
			ex.setHeap(post, "$typeof", nt)
		}
	}
	modTrace := false
	for _, cl := range spec.Clauses {
		if cl.Kind == "modifies" {
			for _, e := range cl.Exprs {
				if id, ok := e.(*SIdent); ok && ex.V.db.IsTrace(id.Name) {
					modTrace = true
				}
			}
		}
	}
	if modTrace {
		ns := ex.D.Fresh("$seq", SInt)
		ex.assume(Ge(ns, ex.getHeap(pre, "$seq", SInt)))
		ex.setHeap(post, "$seq", ns)
	}
	for _, cl := range spec.Clauses {
		if cl.Kind != "modifies" {
			continue
		}
		for _, e := range cl.Exprs {
			ex.havocTarget(e, env, pre, post)
		}
	}
	// results are allocated in the post state
	ex.allocatedDeep(res, rt, post)
	// ghost bindings of the function under verification: "bind g := call K n"
	if ex.spec != nil {
		for _, cl := range ex.spec.Clauses {
			if cl.Kind == "bind" && !strings.HasPrefix(cl.Type, "before:") && cl.Text == fmt.Sprintf("%s %d", info.key, ex.callOrdinal(c, info.key)) {
				v := res
				if len(v.Fs) > 0 {
					v = v.Fs[0]
				}
				if cl.Expr != nil {
					ex.pendingBinds = append(ex.pendingBinds, cl)
					continue
				}
				if len(cl.Exprs) == 1 {
					if id, isGhost := cl.Exprs[0].(*SIdent); isGhost {
						gv, ok := env.vars[id.Name]
						if !ok {
							ex.fail("bind %s: callee has no ghost %s", cl.Name, id.Name)
							continue
						}
						v = gv
					}
				}
				if _, isLit := firstIntLit(cl.Exprs); isLit {
					var idx int
					fmt.Sscanf(cl.Exprs[0].(*SIntLit).Val, "%d", &idx)
					if idx >= len(args) {
						ex.fail("bind %s: call has no argument %d", cl.Name, idx)
						continue
					}
					v = args[idx]
				}
				t := ex.V.specType(cl.Type, ex.pkg)
				v.Ty = t
				// on paths that do not execute the call the ghost keeps its (arbitrary) initial value
				if old, ok := ex.ghosts[cl.Name]; ok && old.T != nil && v.T != nil && ex.pc != True {
					c := ex.D.Fresh("g."+cl.Name, v.T.S)
					ex.assume(Eq(c, Ite(ex.pc, v.T, old.T)))
					v.T = c
				}
				ex.ghosts[cl.Name] = v
				ex.ghostTy[cl.Name] = t
			}
		}
	}
	// ensures
	penv := ex.calleeEnv(spec, info, args, post, pre)
	for k, v := range env.vars {
		penv.vars[k] = v
	}
	for _, cl := range spec.Clauses {
		if cl.Kind == "ensures" || cl.Kind == "maintains" {
			g := ex.evalSpec(cl.Expr, penv)
			ex.assumeHere(g.T)
		}
	}
	// assertions attached to this call site by the function under verification
	if ex.spec != nil {
		for _, cl := range ex.spec.Clauses {
			if cl.Kind == "assert" && cl.Name == fmt.Sprintf("%s %d", info.key, ex.callOrdinal(c, info.key)) {
				aenv := ex.envAt(ex.cur, nil)
				for i, a := range args {
					aenv.vars[fmt.Sprintf("arg%d", i)] = a
				}
				aenv.vars["result"] = res
				for i, f := range res.Fs {
					aenv.vars[fmt.Sprintf("result%d", i)] = f
				}
				g := ex.evalSpec(cl.Expr, aenv)
				ex.oblige("assert:"+shortKey(info.key), ex.tagsOf(cl), g.T, pos, cl.Text)
				ex.assumeHere(g.T) // proved just above: available from here on
			}
		}
	}
	for _, cl := range ex.pendingBinds {
		benv := ex.envAt(ex.cur, nil)
		benv.vars["result"] = res
		for i, f := range res.Fs {
			benv.vars[fmt.Sprintf("result%d", i)] = f
		}
		v := ex.evalSpec(cl.Expr, benv)
		t := ex.V.specType(cl.Type, ex.pkg)
		v.Ty = t
		if old, ok := ex.ghosts[cl.Name]; ok && old.T != nil && v.T != nil && ex.pc != True {
			c := ex.D.Fresh("g."+cl.Name, v.T.S)
			ex.assume(Eq(c, Ite(ex.pc, v.T, old.T)))
			v.T = c
		}
		ex.ghosts[cl.Name] = v
		ex.ghostTy[cl.Name] = t
	}
	ex.pendingBinds = nil
	if spec.Attrs["maypanic"] == "true" {
		ex.branchOnPanic(pos)
	}
	if spec.Attrs["noreturn"] == "true" {
		ex.assumeHere(False)
	}
	return res
}

// branchOnPanic: the call just made may panic. On the panic path the rest of
// the function is skipped and only the deferred calls registered so far run
// (LIFO); if one of them recovers, the function returns normally from there,
// so the postconditions are checked on that path too. The normal path
// continues under the assumption that the call returned.
func (ex *Exec) branchOnPanic(pos token.Pos) {
	ex.sawMayPanic = true
	if ex.fn.Signature.Results().Len() > 0 {
		ex.fail("call that may panic inside a function with results (recover path not modelled)")
		return
	}
	p := ex.D.Fresh("panicked", SBool)
	normal := ex.cur.clone()
	normalPc := ex.pc
	// panic path
	ex.pc = And(normalPc, p)
	ex.setHeap(ex.cur, "$panicking", True)
	for i := len(ex.defers) - 1; i >= 0; i-- {
		d := ex.defers[i]
		ex.callWith(d.instr.Common(), d.instr, d.instr.Pos(), d.args, &d.fnval)
	}
	if ex.safety {
		ex.oblige("panic:escapes", ex.spec.Safety, Not(ex.getHeap(ex.cur, "$panicking", SBool)), pos, "a panic of this call is recovered by a deferred call registered before it")
	}
	ex.assumeHere(Not(ex.getHeap(ex.cur, "$panicking", SBool)))
	ex.returns++
	ex.checkPost(nil, pos)
	// normal path
	ex.cur = normal
	ex.setHeap(ex.cur, "$panicking", False)
	r := ex.D.Fresh("r.nopanic", SBool)
	ex.assume(Eq(r, And(ex.reach[ex.curBlock], Not(p))))
	ex.reach[ex.curBlock] = r
	ex.pc = And(normalPc, Not(p))
}

func (ex *Exec) allocatedDeep(v Val, t types.Type, st *State) {
	if v.T != nil {
		ex.assumeAllocated(v.T, t, st)
		return
	}
	if tup, ok := t.(*types.Tuple); ok {
		for i := range v.Fs {
			ex.allocatedDeep(v.Fs[i], tup.At(i).Type(), st)
		}
	}
}

func (ex *Exec) bindResults(env *Env, spec *FuncSpec, info calleeInfo, res Val, rt types.Type) {
	if tup, ok := rt.(*types.Tuple); ok {
		for i := 0; i < tup.Len(); i++ {
			env.vars[fmt.Sprintf("result%d", i)] = res.Fs[i]
			if i < len(info.resNames) && info.resNames[i] != "" {
				env.vars[info.resNames[i]] = res.Fs[i]
			}
			if i < len(spec.Results) {
				env.vars[spec.Results[i].Name] = res.Fs[i]
			}
		}
		return
	}
	env.vars["result"] = res
	env.vars["result0"] = res
	if len(info.resNames) == 1 && info.resNames[0] != "" {
		env.vars[info.resNames[0]] = res
	}
	if len(spec.Results) == 1 {
		env.vars[spec.Results[0].Name] = res
	}
}

// havocTarget havocs one modifies target in post (evaluated in pre).
func (ex *Exec) havocTarget(e SExpr, env *Env, pre, post *State) {
	switch x := e.(type) {
	case *SIdent:
		if x.Name == "heap" {
			ex.havocAll(post)
			return
		}
		if strings.HasPrefix(x.Name, "$") {
			ex.havocGhost(x.Name, pre, post)
			return
		}
	case *SSel:
		// Type.field (whole array) or obj.field
		if tn := ex.V.typeOfSpecExpr(x.X, env.pkgOr(ex.pkg), func(n string) bool { _, ok := env.vars[n]; return ok }); tn != nil {
			{
				{
					id := &SIdent{show(x.X)}
					st, ok := tn.Underlying().(*types.Struct)
					if !ok {
						ex.fail("modifies %s.%s: not a struct", id.Name, x.Name)
						return
					}
					for i := 0; i < st.NumFields(); i++ {
						if st.Field(i).Name() == x.Name {
							name := heapFieldName(tn, x.Name)
							s := ArrS(SInt, sortOf(st.Field(i).Type()))
							ex.getHeap(pre, name, s)
							ex.setHeap(post, name, ex.D.Fresh(name, s))
							return
						}
					}
					ex.fail("modifies %s.%s: no such field", id.Name, x.Name)
					return
				}
			}
		}
		obj := ex.evalSpec(x.X, env)
		st, named, ok := derefStruct(obj.Ty)
		if !ok || obj.T == nil {
			ex.fail("modifies: %v is not a struct pointer", x.X)
			return
		}
		for i := 0; i < st.NumFields(); i++ {
			if st.Field(i).Name() == x.Name {
				name := heapFieldName(named, x.Name)
				fs := sortOf(st.Field(i).Type())
				if fs == "STRUCT" {
					ex.fail("modifies of struct-valued field %s", x.Name)
					return
				}
				h := ex.getHeap(post, name, ArrS(SInt, fs))
				nv := ex.D.Fresh(name+".new", fs)
				ex.wfVal(nv, st.Field(i).Type())
				// nothing is written through a nil target
				ex.setHeap(post, name, ex.named(name, Ite(Eq(obj.T, IntLit(0)), h, Store(h, obj.T, nv))))
				return
			}
		}
		ex.fail("modifies: no field %s", x.Name)
		return
	case *SCall:
		switch x.Fn {
		case "elems":
			sl := ex.evalSpec(x.Args[0], env)
			et := sl.Ty.Underlying().(*types.Slice).Elem()
			es := sortOf(et)
			name := heapArrName(et)
			h := ex.getHeap(post, name, ArrS(SInt, ArrS(SInt, es)))
			ex.setHeap(post, name, ex.named(name, Store(h, SlBase(sl.T), ex.D.Fresh(name+".new", ArrS(SInt, es)))))
			return
		case "mapsof":
			// every map of the named type may change
			id0, ok := x.Args[0].(*SStrLit)
			id := &SIdent{}
			if ok {
				id.Name = id0.Val
			}
			var mt *types.Map
			if ok {
				if t, isMap := ex.V.specType(id.Name, env.pkgOr(ex.pkg)).Underlying().(*types.Map); isMap {
					mt = t
				}
			}
			if mt == nil {
				ex.fail("mapsof: not a map type: %s", show(x.Args[0]))
				return
			}
			vs := sortOf(mt.Elem())
			dn, vn := mapDomName(mt), mapValName(mt)
			ex.getHeap(pre, dn, ArrS(SInt, ArrS(SInt, SBool)))
			ex.getHeap(pre, vn, ArrS(SInt, ArrS(SInt, vs)))
			ex.setHeap(post, dn, ex.D.Fresh(dn, ArrS(SInt, ArrS(SInt, SBool))))
			ex.setHeap(post, vn, ex.D.Fresh(vn, ArrS(SInt, ArrS(SInt, vs))))
			return
		case "entries":
			menv := env
			if strings.Contains(show(x.Args[0]), "result") {
				// a map reached through the (fresh) result: its fields are read in the post-state
				e2 := *env
				e2.st = post
				menv = &e2
			}
			m := ex.evalSpec(x.Args[0], menv)
			mt := m.Ty.Underlying().(*types.Map)
			vs := sortOf(mt.Elem())
			dn, vn := mapDomName(mt), mapValName(mt)
			d := ex.getHeap(post, dn, ArrS(SInt, ArrS(SInt, SBool)))
			v := ex.getHeap(post, vn, ArrS(SInt, ArrS(SInt, vs)))
			ex.setHeap(post, dn, ex.named(dn, Store(d, m.T, ex.D.Fresh(dn+".new", ArrS(SInt, SBool)))))
			ex.setHeap(post, vn, ex.named(vn, Store(v, m.T, ex.D.Fresh(vn+".new", ArrS(SInt, vs)))))
			return
		}
	}
	ex.fail("unsupported modifies target %v", e)
}

func (ex *Exec) havocGhost(name string, pre, post *State) {
	if ex.V.db.IsTrace(name) {
		ptr := ex.getHeap(pre, name, ArrS(SInt, SEvent))
		pn := ex.getHeap(pre, name+"len", SInt)
		ntr := ex.D.Fresh(name, ArrS(SInt, SEvent))
		nn := ex.D.Fresh(name+"len", SInt)
		ex.assume(Ge(nn, pn))
		k := BV("k!t", SInt)
		ex.assume(Forall([]BVar{{"k!t", SInt}}, Imp(And(Le(IntLit(0), k), Lt(k, pn)), Eq(Select(ntr, k), Select(ptr, k)))))
		// appended events carry sequence numbers of this call's interval
		ex.assume(Forall([]BVar{{"k!t", SInt}}, Imp(And(Le(pn, k), Lt(k, nn)),
			And(Le(ex.getHeap(pre, "$seq", SInt), EvSeq(Select(ntr, k))), Lt(EvSeq(Select(ntr, k)), ex.getHeap(post, "$seq", SInt))))))
		ex.setHeap(post, name, ntr)
		ex.setHeap(post, name+"len", nn)
		return
	}
	switch name {
	case "$held", "$wg":
		ex.getHeap(pre, name, ArrS(SInt, SInt))
		ex.setHeap(post, name, ex.D.Fresh(name, ArrS(SInt, SInt)))
	case "$panicking":
		ex.setHeap(post, name, ex.D.Fresh(name, SBool))
	default:
		s, ok := ex.heapSort[name]
		if tn, isG := ex.V.db.Ghosts[name]; isG {
			s, ok = sortOf(ex.V.specType(tn, ex.pkg)), true
		}
		if !ok {
			ex.fail("modifies of unknown ghost %s", name)
			return
		}
		ex.getHeap(pre, name, s)
		ex.setHeap(post, name, ex.D.Fresh(name, s))
	}
}

// logCall models a call of the logging package: one "log" event carrying the
// format string on the $log trace, followed by one "logarg" event per
// variadic argument (string payloads in estr, integers in eint, anything
// else as an opaque value in eobj2). The program state is not affected.
func (ex *Exec) logCall(c *ssa.CallCommon, args []Val) {
	lvl := IntLit(int64(ex.V.nameID("loglevel:" + c.StaticCallee().Name())))
	var fm *Term
	if len(args) > 0 && args[0].T != nil && args[0].T.S == SStr {
		fm = args[0].T
	}
	ex.emitTo("$log", ex.mkEvent(evLog, nil, fm, lvl, nil))
	if len(c.Args) < 2 {
		return
	}
	sl, ok := c.Args[1].(*ssa.Slice)
	if !ok {
		if k, isConst := c.Args[1].(*ssa.Const); isConst && k.Value == nil {
			return // no variadic arguments
		}
		// a slice built elsewhere: contents unknown
		ex.emitTo("$log", ex.mkEvent(evLogArg, nil, ex.freshVal("logarg", tyStr).T, nil, nil))
		return
	}
	alloc, ok := sl.X.(*ssa.Alloc)
	if !ok {
		ex.emitTo("$log", ex.mkEvent(evLogArg, nil, ex.freshVal("logarg", tyStr).T, nil, nil))
		return
	}
	n := alloc.Type().(*types.Pointer).Elem().Underlying().(*types.Array).Len()
	elems := make([]ssa.Value, n)
	for _, r := range *alloc.Referrers() {
		ia, ok := r.(*ssa.IndexAddr)
		if !ok {
			continue
		}
		k, ok := ia.Index.(*ssa.Const)
		if !ok {
			continue
		}
		for _, r2 := range *ia.Referrers() {
			if st, ok := r2.(*ssa.Store); ok && st.Addr == ia {
				elems[int(k.Int64())] = st.Val
			}
		}
	}
	for _, e := range elems {
		var payload Val
		if mi, ok := e.(*ssa.MakeInterface); ok {
			payload = ex.val(mi.X)
		} else if e != nil {
			payload = ex.val(e)
		}
		switch {
		case payload.T != nil && payload.T.S == SStr:
			ex.emitTo("$log", ex.mkEvent(evLogArg, nil, payload.T, nil, nil))
		case payload.T != nil && payload.T.S == SInt:
			ex.emitTo("$log", ex.mkEvent(evLogArg, nil, nil, payload.T, nil))
		default:
			ex.emitTo("$log", ex.mkEvent(evLogArg, nil, nil, nil, IntLit(1)))
		}
	}
}

// ---------------------------------------------------------------------------
// builtins

func (ex *Exec) callBuiltin(b *ssa.Builtin, c *ssa.CallCommon, args []Val, pos token.Pos) Val {
	rt := ex.resultType(c)
	switch b.Name() {
	case "len":
		a := args[0]
		switch a.T.S {
		case SStr:
			return Val{T: SLen(a.T), Ty: tyInt}
		case SSlice:
			return Val{T: SlLen(a.T), Ty: tyInt}
		case SInt:
			if mt, ok := c.Args[0].Type().Underlying().(*types.Map); ok {
				vs := sortOf(mt.Elem())
				_ = vs
				dom := Select(ex.getHeap(ex.cur, mapDomName(mt), ArrS(SInt, ArrS(SInt, SBool))), a.T)
				return Val{T: ex.card(dom, a.T), Ty: tyInt}
			}
			r := ex.D.Fresh("chanlen", SInt)
			ex.assume(Ge(r, IntLit(0)))
			return Val{T: r, Ty: tyInt}
		}
	case "cap":
		if args[0].T.S == SSlice {
			return Val{T: SlCap(args[0].T), Ty: tyInt}
		}
		r := ex.D.Fresh("cap", SInt)
		ex.assume(Ge(r, IntLit(0)))
		return Val{T: r, Ty: tyInt}
	case "append":
		return ex.doAppend(c, args, pos)
	case "copy":
		return ex.doCopy(c, args, pos)
	case "delete":
		m := args[0]
		mt := c.Args[0].Type().Underlying().(*types.Map)
		key := ex.mapKey(args[1], mt.Key())
		dn := mapDomName(mt)
		dom := ex.getHeap(ex.cur, dn, ArrS(SInt, ArrS(SInt, SBool)))
		// delete on a nil map is a no-op
		ex.setHeap(ex.cur, dn, ex.named(dn, Ite(Eq(m.T, IntLit(0)), dom, Store(dom, m.T, Store(Select(dom, m.T), key, False)))))
		return Val{Ty: rt}
	case "panic":
		if ex.safety {
			ex.oblige("panic:explicit", ex.spec.Safety, False, pos, "explicit panic")
		}
		ex.assumeHere(False)
		return Val{Ty: rt}
	case "recover":
		if ex.fn.Parent() != nil && (ex.spec == nil || ex.spec.Attrs["deferred"] != "true") {
			// recover() only stops a panic when called directly by a deferred
			// function; in a nested function it returns nil and changes nothing
			return Val{T: IntLit(0), Ty: rt}
		}
		p := ex.getHeap(ex.cur, "$panicking", SBool)
		r := ex.D.Fresh("recovered", SInt)
		ex.assume(Ge(r, IntLit(0)))
		ex.assume(Eq(Neq(r, IntLit(0)), p))
		ex.setHeap(ex.cur, "$panicking", False)
		ex.directRecover = true
		return Val{T: r, Ty: rt}
	case "print", "println":
		return Val{Ty: rt}
	case "ssa:wrapnilchk":
		ex.panicCheck("nil", Neq(args[0].T, IntLit(0)), pos, "nil receiver")
		return args[0]
	case "ssa:deferstack":
		return Val{T: IntLit(0), Ty: rt}
	case "min", "max":
		if len(args) == 2 && args[0].T.S == SInt {
			if b.Name() == "min" {
				return Val{T: Ite(Le(args[0].T, args[1].T), args[0].T, args[1].T), Ty: rt}
			}
			return Val{T: Ite(Ge(args[0].T, args[1].T), args[0].T, args[1].T), Ty: rt}
		}
	}
	ex.fail("builtin %s unsupported", b.Name())
	return ex.freshVal("builtin", rt)
}

// card: cardinality of a map's key set, as an uninterpreted function of the
// domain array with the facts needed instantiated at use.
func (ex *Exec) card(dom *Term, m *Term) *Term {
	ex.needCard = true
	r := ex.D.Fn("card", SInt, dom)
	if isGroundTerm(r) {
		ex.assume(Ge(r, IntLit(0)))
	}
	return r
}

func (ex *Exec) doAppend(c *ssa.CallCommon, args []Val, pos token.Pos) Val {
	s := args[0]
	st := c.Args[0].Type().Underlying().(*types.Slice)
	es := sortOf(st.Elem())
	name := heapArrName(st.Elem())
	A := ex.getHeap(ex.cur, name, ArrS(SInt, ArrS(SInt, es)))
	if len(args) == 1 {
		return s
	}
	t := args[1]
	if t.T.S != SSlice {
		// append([]byte, string...)
		r := ex.freshVal("append", c.Args[0].Type())
		ex.assume(Eq(SlLen(r.T), Add(SlLen(s.T), SLen(t.T))))
		nb := ex.newRef(ex.cur, "appendbase")
		ex.assume(Eq(SlBase(r.T), nb))
		return r
	}
	n := SlLen(t.T)
	newlen := ex.named("newlen", Add(SlLen(s.T), n))
	inpl := ex.D.Fresh("append.inplace", SBool)
	ex.assume(Eq(inpl, Le(newlen, SlCap(s.T))))
	fresh := ex.newRef(ex.cur, "append.base")
	rb := ex.D.Fresh("append.rb", SInt)
	roff := ex.D.Fresh("append.off", SInt)
	rcap := ex.D.Fresh("append.cap", SInt)
	ex.assume(Imp(inpl, And(Eq(rb, SlBase(s.T)), Eq(roff, SlOff(s.T)), Eq(rcap, SlCap(s.T)))))
	ex.assume(Imp(Not(inpl), And(Eq(rb, fresh), Eq(roff, IntLit(0)), Ge(rcap, newlen))))
	A2 := ex.D.Fresh(name, A.S)
	// other backing arrays unchanged
	bq := BV("b!a", SInt)
	ex.assume(Forall([]BVar{{"b!a", SInt}}, Imp(Neq(bq, rb), Eq(Select(A2, bq), Select(A, bq)))))
	// old elements
	iq := BV("i!a", SInt)
	ex.assume(Forall([]BVar{{"i!a", SInt}}, Imp(And(Le(IntLit(0), iq), Lt(iq, SlLen(s.T))),
		Eq(Select(Select(A2, rb), Add(roff, iq)), Select(Select(A, SlBase(s.T)), Add(SlOff(s.T), iq))))))
	// appended elements: unrolled when the count is a small constant
	if cnt, ok := n.IntVal(); ok && cnt <= 8 {
		for j := int64(0); j < cnt; j++ {
			ex.assume(Eq(Select(Select(A2, rb), Add(roff, Add(SlLen(s.T), IntLit(j)))),
				Select(Select(A, SlBase(t.T)), Add(SlOff(t.T), IntLit(j)))))
		}
	} else {
		ex.assume(Forall([]BVar{{"i!a", SInt}}, Imp(And(Le(IntLit(0), iq), Lt(iq, n)),
			Eq(Select(Select(A2, rb), Add(roff, Add(SlLen(s.T), iq))), Select(Select(A, SlBase(t.T)), Add(SlOff(t.T), iq))))))
	}
	// in place: the rest of the backing array is untouched
	jq := BV("j!a", SInt)
	ex.assume(Imp(inpl, Forall([]BVar{{"j!a", SInt}}, Imp(Or(Lt(jq, Add(roff, SlLen(s.T))), Ge(jq, Add(roff, newlen))),
		Eq(Select(Select(A2, rb), jq), Select(Select(A, rb), jq))))))
	ex.setHeap(ex.cur, name, A2)
	if es == SStr {
		// the set of string identities of the result (sidset): old elements plus the appended ones
		ex.needSid = true
		setS := ArrS(SInt, SBool)
		sNew := ex.D.Fn("sidsetf", setS, Select(A2, rb), roff, Add(roff, newlen))
		sOld := ex.D.Fn("sidsetf", setS, Select(A, SlBase(s.T)), SlOff(s.T), Add(SlOff(s.T), SlLen(s.T)))
		if cnt, ok := n.IntVal(); ok && cnt == 1 {
			ex.assume(Eq(sNew, Store(sOld, Sid(Select(Select(A, SlBase(t.T)), SlOff(t.T))), True)))
		} else {
			sAdd := ex.D.Fn("sidsetf", setS, Select(A, SlBase(t.T)), SlOff(t.T), Add(SlOff(t.T), n))
			kq := BV("k!a", SInt)
			ex.assume(Forall([]BVar{{"k!a", SInt}}, Eq(Select(sNew, kq), Or(Select(sOld, kq), Select(sAdd, kq)))))
		}
	}
	r := ex.D.Fresh("append", SSlice)
	ex.assume(Eq(r, MkSlice(rb, roff, newlen, rcap)))
	return Val{T: r, Ty: c.Args[0].Type()}
}

func (ex *Exec) doCopy(c *ssa.CallCommon, args []Val, pos token.Pos) Val {
	dst, src := args[0], args[1]
	if src.T.S != SSlice {
		ex.fail("copy from string unsupported")
		return ex.freshVal("copy", tyInt)
	}
	st := c.Args[0].Type().Underlying().(*types.Slice)
	es := sortOf(st.Elem())
	name := heapArrName(st.Elem())
	A := ex.getHeap(ex.cur, name, ArrS(SInt, ArrS(SInt, es)))
	n := ex.D.Fresh("copy.n", SInt)
	ex.assume(Eq(n, Ite(Le(SlLen(dst.T), SlLen(src.T)), SlLen(dst.T), SlLen(src.T))))
	A2 := ex.D.Fresh(name, A.S)
	bq := BV("b!c", SInt)
	iq := BV("i!c", SInt)
	db, do := SlBase(dst.T), SlOff(dst.T)
	ex.assume(Forall([]BVar{{"b!c", SInt}}, Imp(Neq(bq, db), Eq(Select(A2, bq), Select(A, bq)))))
	ex.assume(Forall([]BVar{{"i!c", SInt}}, Imp(And(Le(IntLit(0), iq), Lt(iq, n)),
		Eq(Select(Select(A2, db), Add(do, iq)), Select(Select(A, SlBase(src.T)), Add(SlOff(src.T), iq))))))
	ex.assume(Forall([]BVar{{"i!c", SInt}}, Imp(Or(Lt(iq, do), Ge(iq, Add(do, n))),
		Eq(Select(Select(A2, db), iq), Select(Select(A, db), iq)))))
	// n == 0: nothing changes at all
	ex.assume(Imp(Eq(n, IntLit(0)), Eq(A2, A)))
	ex.setHeap(ex.cur, name, A2)
	return Val{T: n, Ty: tyInt}
}

// ---------------------------------------------------------------------------
// postconditions

func (ex *Exec) checkPost(res []Val, pos token.Pos) {
	if ex.spec == nil {
		return
	}
	env := ex.envAt(ex.cur, nil)
	env.entry = true // parameter names denote entry values
	sig := ex.fn.Signature
	for i, r := range res {
		env.vars[fmt.Sprintf("result%d", i)] = r
		if n := sig.Results().At(i).Name(); n != "" && n != "_" {
			env.vars[n] = r
		}
		if i < len(ex.spec.Results) {
			env.vars[ex.spec.Results[i].Name] = r
		}
	}
	if len(res) == 1 {
		env.vars["result"] = res[0]
	}
	// instantiation hints: integer terms worth trying in quantified hypotheses
	ex.hintTerms = nil
	for _, c := range ex.spec.Clauses {
		if c.Kind == "hint" {
			for _, e := range c.Exprs {
				for _, st := range []*State{ex.init, ex.cur} {
					henv := ex.envAt(st, nil)
					henv.entry = true
					for k, v := range env.vars {
						henv.vars[k] = v
					}
					if v := ex.evalSpec(e, henv); v.T != nil && v.T.S == SInt {
						ex.hintTerms = append(ex.hintTerms, v.T)
					}
				}
			}
		}
	}
	hints := ex.hintTerms
	ord := 0
	for _, c := range ex.spec.Clauses {
		switch c.Kind {
		case "ensures", "maintains":
			g := ex.evalSpec(c.Expr, env)
			ex.oblige(fmt.Sprintf("ensures%d@ret%d", ord, ex.returns), ex.tagsOf(c), g.T, pos, c.Text)
			ex.obls[len(ex.obls)-1].Hints = hints
			ord++
		}
	}
	ex.checkFrame(env, pos)
	// vacuity: this return must be reachable
	ex.obls = append(ex.obls, &Obligation{
		Name: fmt.Sprintf("%s/cover:ret%d", ex.fnKey(), ex.returns), Tags: ex.spec.Props, Func: ex.fnKey(), Kind: "cover",
		Pos: ex.posOf(pos), Text: "return reachable under the precondition", NAxioms: len(ex.axioms), Path: ex.pc, Goal: False, ex: ex, IsCover: true,
	})
}

// unwrapIface: the pointer held by an interface value whose dynamic type is
// assumed (impl directive) to be the pointer type t. unwrap.T is the inverse
// of the injection iface.T that MakeInterface applies.
func (ex *Exec) unwrapIface(v Val, t types.Type) Val {
	key := sanitize(typeKey(t))
	p := ex.D.Fn("unwrap."+key, SInt, v.T)
	ex.assume(Imp(Neq(v.T, IntLit(0)), And(Gt(p, IntLit(0)), Eq(ex.D.Fn("iface."+key, SInt, p), v.T))))
	ex.assume(Imp(Eq(v.T, IntLit(0)), Eq(p, IntLit(0))))
	ex.assumeAllocated(p, t, ex.cur)
	ex.typedRef(p, t, ex.cur)
	return Val{T: p, Ty: t}
}
