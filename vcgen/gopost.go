package main

// Compilation of a violated postcondition to Go, for replay: when the clause
// lies in the executable subset (parameters, results, fields, len / index /
// slice, arithmetic, comparisons, boolean connectives, bounded integer
// quantifiers, predicates and the spec functions that have a Go counterpart),
// the replay test evaluates it on the real function's actual result and
// prints REPLAY-POST-VIOLATED when it is false. Anything outside the subset
// (ghost state, traces, old heap, abstract spec functions) gives no check,
// and the violation is then reported without a confirmed input.

import (
	"fmt"
	"strconv"
	"strings"
)

type goComp struct {
	strs  map[string]bool // Go expressions of type []string (indexing yields a string, not a byte)
	ex    *Exec
	vars  map[string]string // spec name -> Go expression
	fail  string
	depth int
}

var goSpecFns = map[string]string{
	"firstIdx": "strings.Index", "lastIdx": "strings.LastIndex", "upper": "strings.ToUpper", "lower": "strings.ToLower",
	"firstnl": "verifFirstNL",
}

const goPostHelpers = `
func verifFirstNL(s string) int {
	for i := 0; i < len(s); i++ {
		if s[i] == '\r' || s[i] == '\n' {
			return i
		}
	}
	return len(s)
}
`

func (g *goComp) bad(format string, a ...interface{}) string {
	if g.fail == "" {
		g.fail = fmt.Sprintf(format, a...)
	}
	return "false"
}

func goType(t string) (string, bool) {
	switch t {
	case "int", "string", "bool", "[]string", "[]byte", "byte":
		return t, true
	}
	if strings.HasPrefix(t, "*") || strings.HasPrefix(t, "[]") {
		inner, ok := goType(strings.TrimLeft(t, "*[]"))
		_ = inner
		if ok || (len(t) > 1 && t[1] >= 'A' && t[1] <= 'Z') {
			return t, true
		}
	}
	if t != "" && ((t[0] >= 'A' && t[0] <= 'Z') || (t[0] >= 'a' && t[0] <= 'z')) {
		switch t {
		case "seq", "set", "trace", "ref", "imap", "smap", "seqmap", "event":
			return "", false
		}
		return t, true
	}
	return "", false
}

func (g *goComp) comp(e SExpr) string {
	g.depth++
	defer func() { g.depth-- }()
	if g.depth > 40 {
		return g.bad("too deep")
	}
	switch x := e.(type) {
	case *SIdent:
		if v, ok := g.vars[x.Name]; ok {
			return v
		}
		return g.bad("name %s", x.Name)
	case *SIntLit:
		return x.Val
	case *SStrLit:
		return strconv.Quote(x.Val)
	case *SCharLit:
		return fmt.Sprintf("%d", x.Val)
	case *SBoolLit:
		if x.Val {
			return "true"
		}
		return "false"
	case *SNil:
		return "nil"
	case *SUnary:
		switch x.Op {
		case "!", "-":
			return "(" + x.Op + g.comp(x.X) + ")"
		}
		return g.bad("unary %s", x.Op)
	case *SBinary:
		a, b := g.comp(x.X), g.comp(x.Y)
		switch x.Op {
		case "&&", "||", "+", "-", "*", "/", "%", "<", "<=", ">", ">=", "==", "!=":
			if x.Op == "==" || x.Op == "!=" {
				// byte vs untyped constant comparisons need no conversion; int(byte) is harmless
			}
			return "(" + a + " " + x.Op + " " + b + ")"
		case "===":
			return "(" + a + " == " + b + ")"
		case "!==":
			return "(" + a + " != " + b + ")"
		case "==>":
			return "(!(" + a + ") || (" + b + "))"
		case "<==>":
			return "((" + a + ") == (" + b + "))"
		}
		return g.bad("binary %s", x.Op)
	case *SCond:
		return "func() interface{} { if " + g.comp(x.C) + " { return " + g.comp(x.A) + " }; return " + g.comp(x.B) + " }()"
	case *SIndex:
		b := g.comp(x.X)
		if g.strs[b] || strings.HasSuffix(b, ".Args") {
			return b + "[" + g.comp(x.I) + "]"
		}
		return "int(" + b + "[" + g.comp(x.I) + "])"
	case *SSliceE:
		lo, hi := "", ""
		if x.Lo != nil {
			lo = g.comp(x.Lo)
		}
		if x.Hi != nil {
			hi = g.comp(x.Hi)
		}
		return g.comp(x.X) + "[" + lo + ":" + hi + "]"
	case *SSel:
		return g.comp(x.X) + "." + x.Name
	case *SOld:
		// only parameters of value type keep their entry value
		if id, ok := x.X.(*SIdent); ok {
			if v, ok := g.vars["old:"+id.Name]; ok {
				return v
			}
		}
		return g.bad("old(...)")
	case *SLet:
		v := g.comp(x.Val)
		saved, had := g.vars[x.Name]
		g.vars[x.Name] = "(" + v + ")"
		r := g.comp(x.Body)
		if had {
			g.vars[x.Name] = saved
		} else {
			delete(g.vars, x.Name)
		}
		return r
	case *SQuant:
		for _, qv := range x.Vars {
			if qv.Type != "int" {
				return g.bad("quantifier over %v", x.Vars)
			}
		}
		if len(x.Vars) > 2 {
			return g.bad("quantifier over %d variables", len(x.Vars))
		}
		hi := "80"
		if len(x.Vars) == 2 {
			hi = "24"
		}
		type sv struct {
			s   string
			had bool
		}
		saved := map[string]sv{}
		for _, qv := range x.Vars {
			o, had := g.vars[qv.Name]
			saved[qv.Name] = sv{o, had}
			g.vars[qv.Name] = qv.Name
		}
		body := g.comp(x.Body)
		for _, qv := range x.Vars {
			if saved[qv.Name].had {
				g.vars[qv.Name] = saved[qv.Name].s
			} else {
				delete(g.vars, qv.Name)
			}
		}
		loops, closes := "", ""
		for _, qv := range x.Vars {
			loops += "for " + qv.Name + " := -2; " + qv.Name + " <= " + hi + "; " + qv.Name + "++ { "
			closes += " }"
		}
		if x.Kind == "forall" {
			return "func() bool { " + loops + "if !(" + body + ") { return false }" + closes + "; return true }()"
		}
		return "func() bool { " + loops + "if " + body + " { return true }" + closes + "; return false }()"
	case *SCall:
		switch x.Fn {
		case "len":
			if len(x.Args) == 1 {
				return "len(" + g.comp(x.Args[0]) + ")"
			}
		}
		if gf, ok := goSpecFns[x.Fn]; ok {
			var as []string
			for _, a := range x.Args {
				as = append(as, g.comp(a))
			}
			return gf + "(" + strings.Join(as, ", ") + ")"
		}
		if sf := g.ex.V.db.SpecFns[x.Fn]; sf != nil && sf.Body != nil && len(sf.Params) == len(x.Args) {
			var ps, as []string
			inner := &goComp{ex: g.ex, vars: map[string]string{}, depth: g.depth, strs: map[string]bool{}}
			for i, p := range sf.Params {
				if p.Type == "[]string" {
					inner.strs[p.Name] = true
				}
				gt, ok := goType(p.Type)
				if !ok {
					return g.bad("parameter type %s of %s", p.Type, x.Fn)
				}
				ps = append(ps, p.Name+" "+gt)
				inner.vars[p.Name] = p.Name
				as = append(as, g.comp(x.Args[i]))
			}
			ret := "bool"
			if !sf.IsPred {
				gt, ok := goType(sf.Ret)
				if !ok {
					return g.bad("result type of %s", x.Fn)
				}
				ret = gt
			}
			body := inner.comp(sf.Body)
			if inner.fail != "" {
				return g.bad("%s: %s", x.Fn, inner.fail)
			}
			return "func(" + strings.Join(ps, ", ") + ") " + ret + " { return " + body + " }(" + strings.Join(as, ", ") + ")"
		}
		return g.bad("call %s", x.Fn)
	}
	return g.bad("expression %T", e)
}

// goPostCheck compiles the violated ensures clause to Go when it lies in the
// executable subset; otherwise returns "".
func (ex *Exec) goPostCheck(o *Obligation) string {
	if !strings.HasPrefix(o.Kind, "ensures") || ex.spec == nil {
		return ""
	}
	_, text := parseTags(o.Text)
	e, err := ParseSpecExpr(text)
	if err != nil {
		return ""
	}
	g := &goComp{ex: ex, vars: map[string]string{}}
	fn := ex.fn
	g.strs = map[string]bool{}
	for i, p := range fn.Params {
		if p.Type().String() == "[]string" {
			g.strs[fmt.Sprintf("a%d", i)] = true
		}
		g.vars[p.Name()] = fmt.Sprintf("a%d", i)
		switch p.Type().Underlying().String() {
		case "string", "int", "bool":
			g.vars["old:"+p.Name()] = fmt.Sprintf("a%d", i)
		}
	}
	res := fn.Signature.Results()
	for i := 0; i < res.Len(); i++ {
		if res.At(i).Type().String() == "[]string" {
			g.strs[fmt.Sprintf("r%d", i)] = true
		}
		if n := res.At(i).Name(); n != "" && n != "_" {
			g.vars[n] = fmt.Sprintf("r%d", i)
		}
		g.vars[fmt.Sprintf("result%d", i)] = fmt.Sprintf("r%d", i)
	}
	if res.Len() == 1 {
		g.vars["result"] = "r0"
	}
	for i, r := range ex.spec.Results {
		if i < res.Len() {
			g.vars[r.Name] = fmt.Sprintf("r%d", i)
		}
	}
	// contract-level lets
	for _, cl := range ex.spec.Clauses {
		if cl.Kind == "let" && cl.Expr != nil {
			v := g.comp(cl.Expr)
			if g.fail != "" {
				g.fail = ""
				continue
			}
			g.vars[cl.Name] = "(" + v + ")"
		}
	}
	code := g.comp(e)
	if g.fail != "" {
		return ""
	}
	return "\tif !(" + code + ") {\n\t\tfmt.Println(\"REPLAY-POST-VIOLATED\")\n\t}\n"
}
