package main

// SMT term layer: a small immutable term AST with sorts, light simplification
// and SMT-LIB printing. Strings are views (array, offset, length); slices are
// (base, off, len, cap) over per-element-sort heaps of backing arrays.

import (
	"sync"
	"fmt"
	"sort"
	"strconv"
	"strings"
)

type Sort string

const (
	SInt   Sort = "Int"
	SBool  Sort = "Bool"
	SStr   Sort = "Str"
	SSlice Sort = "Slice"
	SEvent Sort = "Event"
	SSeq   Sort = "ISeq"
)

func ArrS(k, v Sort) Sort { return Sort("(Array " + string(k) + " " + string(v) + ")") }

func (s Sort) IsArr() bool { return strings.HasPrefix(string(s), "(Array ") }

// ArrParts splits an array sort into key and value sorts.
func (s Sort) ArrParts() (Sort, Sort) {
	str := string(s)
	if !s.IsArr() {
		panic("not an array sort: " + str)
	}
	inner := str[len("(Array ") : len(str)-1]
	// key is either an atom or a parenthesised sort
	depth := 0
	for i := 0; i < len(inner); i++ {
		switch inner[i] {
		case '(':
			depth++
		case ')':
			depth--
		case ' ':
			if depth == 0 {
				return Sort(inner[:i]), Sort(inner[i+1:])
			}
		}
	}
	panic("bad array sort " + str)
}

type BVar struct {
	Name string
	S    Sort
}

type Term struct {
	Op    string // operator, or symbol name for constants / applications
	Args  []*Term
	S     Sort
	Bound []BVar    // for forall / exists
	Pats  [][]*Term // optional patterns for quantifiers
	IsSym bool      // Op is a declared symbol (constant or uninterpreted function)
}

func (t *Term) String() string {
	var sb strings.Builder
	t.write(&sb)
	return sb.String()
}

func (t *Term) write(sb *strings.Builder) {
	switch t.Op {
	case "forall", "exists":
		sb.WriteString("(" + t.Op + " (")
		for i, b := range t.Bound {
			if i > 0 {
				sb.WriteByte(' ')
			}
			sb.WriteString("(" + b.Name + " " + string(b.S) + ")")
		}
		sb.WriteString(") ")
		if len(t.Pats) > 0 {
			sb.WriteString("(! ")
			t.Args[0].write(sb)
			for _, p := range t.Pats {
				sb.WriteString(" :pattern (")
				for i, x := range p {
					if i > 0 {
						sb.WriteByte(' ')
					}
					x.write(sb)
				}
				sb.WriteString(")")
			}
			sb.WriteString(")")
		} else {
			t.Args[0].write(sb)
		}
		sb.WriteString(")")
		return
	}
	if len(t.Args) == 0 {
		sb.WriteString(t.Op)
		return
	}
	sb.WriteByte('(')
	sb.WriteString(t.Op)
	for _, a := range t.Args {
		sb.WriteByte(' ')
		a.write(sb)
	}
	sb.WriteByte(')')
}

// Canon renders the term with bound variables renamed in binding order, so
// that alpha-equivalent formulas (the same predicate expanded twice) compare
// equal as strings.
func (t *Term) Canon() string {
	var sb strings.Builder
	n := 0
	t.canon(&sb, map[string]string{}, &n)
	return sb.String()
}

func (t *Term) canon(sb *strings.Builder, ren map[string]string, n *int) {
	switch t.Op {
	case "forall", "exists":
		if !t.IsSym {
			sb.WriteString("(" + t.Op + " (")
			saved := map[string]string{}
			for _, b := range t.Bound {
				if old, ok := ren[b.Name]; ok {
					saved[b.Name] = old
				}
				ren[b.Name] = fmt.Sprintf("b%d", *n)
				*n++
				sb.WriteString("(" + ren[b.Name] + " " + string(b.S) + ")")
			}
			sb.WriteString(") ")
			t.Args[0].canon(sb, ren, n)
			sb.WriteString(")")
			for _, b := range t.Bound {
				if old, ok := saved[b.Name]; ok {
					ren[b.Name] = old
				} else {
					delete(ren, b.Name)
				}
			}
			return
		}
	}
	if len(t.Args) == 0 {
		if r, ok := ren[t.Op]; ok && !t.IsSym {
			sb.WriteString(r)
		} else {
			sb.WriteString(t.Op)
		}
		return
	}
	sb.WriteByte('(')
	sb.WriteString(t.Op)
	for _, a := range t.Args {
		sb.WriteByte(' ')
		a.canon(sb, ren, n)
	}
	sb.WriteByte(')')
}

// ---------------------------------------------------------------------------
// constructors

var (
	True  = &Term{Op: "true", S: SBool}
	False = &Term{Op: "false", S: SBool}
)

func IntLit(n int64) *Term {
	if n < 0 {
		return &Term{Op: "-", Args: []*Term{{Op: strconv.FormatInt(-n, 10), S: SInt}}, S: SInt}
	}
	return &Term{Op: strconv.FormatInt(n, 10), S: SInt}
}

func BigLit(s string) *Term {
	if strings.HasPrefix(s, "-") {
		return &Term{Op: "-", Args: []*Term{{Op: s[1:], S: SInt}}, S: SInt}
	}
	return &Term{Op: s, S: SInt}
}

func BoolLit(b bool) *Term {
	if b {
		return True
	}
	return False
}

func (t *Term) IntVal() (int64, bool) {
	if t.S != SInt {
		return 0, false
	}
	if len(t.Args) == 0 && !t.IsSym {
		n, err := strconv.ParseInt(t.Op, 10, 64)
		return n, err == nil
	}
	if t.Op == "-" && len(t.Args) == 1 {
		if n, ok := t.Args[0].IntVal(); ok {
			return -n, true
		}
	}
	return 0, false
}

func Sym(name string, s Sort) *Term { return &Term{Op: name, S: s, IsSym: true} }

func App(fn string, s Sort, args ...*Term) *Term {
	return &Term{Op: fn, Args: args, S: s, IsSym: true}
}

// builtin (non-declared) application
func bi(op string, s Sort, args ...*Term) *Term { return &Term{Op: op, Args: args, S: s} }

func Not(a *Term) *Term {
	if a == True {
		return False
	}
	if a == False {
		return True
	}
	if a.Op == "not" && !a.IsSym {
		return a.Args[0]
	}
	return bi("not", SBool, a)
}

func And(as ...*Term) *Term {
	var out []*Term
	for _, a := range as {
		if a == nil || a == True {
			continue
		}
		if a == False {
			return False
		}
		if a.Op == "and" && !a.IsSym {
			out = append(out, a.Args...)
		} else {
			out = append(out, a)
		}
	}
	switch len(out) {
	case 0:
		return True
	case 1:
		return out[0]
	}
	return bi("and", SBool, out...)
}

func Or(as ...*Term) *Term {
	var out []*Term
	for _, a := range as {
		if a == nil || a == False {
			continue
		}
		if a == True {
			return True
		}
		if a.Op == "or" && !a.IsSym {
			out = append(out, a.Args...)
		} else {
			out = append(out, a)
		}
	}
	switch len(out) {
	case 0:
		return False
	case 1:
		return out[0]
	}
	return bi("or", SBool, out...)
}

func Imp(a, b *Term) *Term {
	if a == True {
		return b
	}
	if a == False || b == True {
		return True
	}
	if b == False {
		return Not(a)
	}
	return bi("=>", SBool, a, b)
}

func Iff(a, b *Term) *Term { return Eq(a, b) }

func Ite(c, a, b *Term) *Term {
	if c == True {
		return a
	}
	if c == False {
		return b
	}
	if a == b {
		return a
	}
	if a.S != b.S {
		panic(fmt.Sprintf("ite sort mismatch %s vs %s: %s / %s", a.S, b.S, a, b))
	}
	if a.S == SBool {
		if a == True && b == False {
			return c
		}
		if a == False && b == True {
			return Not(c)
		}
	}
	return bi("ite", a.S, c, a, b)
}

func Eq(a, b *Term) *Term {
	if a == b {
		return True
	}
	if a.S != b.S {
		panic(fmt.Sprintf("eq sort mismatch %s vs %s: %s = %s", a.S, b.S, a, b))
	}
	if x, ok := a.IntVal(); ok {
		if y, ok := b.IntVal(); ok {
			return BoolLit(x == y)
		}
	}
	if a.S == SBool {
		if a == True {
			return b
		}
		if b == True {
			return a
		}
		if a == False {
			return Not(b)
		}
		if b == False {
			return Not(a)
		}
	}
	if termEq(a, b) {
		return True
	}
	return bi("=", SBool, a, b)
}

func Neq(a, b *Term) *Term { return Not(Eq(a, b)) }

// termEq: structural equality of terms.
func termEq(a, b *Term) bool {
	if a == b {
		return true
	}
	if a.Op != b.Op || a.S != b.S || len(a.Args) != len(b.Args) || a.IsSym != b.IsSym || len(a.Bound) != len(b.Bound) {
		return false
	}
	for i := range a.Bound {
		if a.Bound[i] != b.Bound[i] {
			return false
		}
	}
	for i := range a.Args {
		if !termEq(a.Args[i], b.Args[i]) {
			return false
		}
	}
	return true
}

func arith(op string, a, b *Term) *Term {
	if a.S != SInt || b.S != SInt {
		panic(fmt.Sprintf("arith %s on non-int: %s(%s) %s(%s)", op, a, a.S, b, b.S))
	}
	x, okx := a.IntVal()
	y, oky := b.IntVal()
	if okx && oky {
		switch op {
		case "+":
			if r := x + y; (r > x) == (y > 0) {
				return IntLit(r)
			}
		case "-":
			if r := x - y; (r < x) == (y > 0) {
				return IntLit(r)
			}
		case "*":
			if x == 0 || y == 0 {
				return IntLit(0)
			}
			if r := x * y; r/y == x {
				return IntLit(r)
			}
		}
	}
	if oky && y == 0 && (op == "+" || op == "-") {
		return a
	}
	if okx && x == 0 && op == "+" {
		return b
	}
	if op == "*" {
		if okx && x == 1 {
			return b
		}
		if oky && y == 1 {
			return a
		}
	}
	return bi(op, SInt, a, b)
}

func Add(a, b *Term) *Term { return arith("+", a, b) }
func Sub(a, b *Term) *Term { return arith("-", a, b) }
func Mul(a, b *Term) *Term { return arith("*", a, b) }
func Neg(a *Term) *Term    { return Sub(IntLit(0), a) }

func cmp(op string, a, b *Term) *Term {
	if a.S != SInt || b.S != SInt {
		panic(fmt.Sprintf("cmp %s on non-int: %s(%s) %s(%s)", op, a, a.S, b, b.S))
	}
	x, okx := a.IntVal()
	y, oky := b.IntVal()
	if okx && oky {
		switch op {
		case "<":
			return BoolLit(x < y)
		case "<=":
			return BoolLit(x <= y)
		case ">":
			return BoolLit(x > y)
		case ">=":
			return BoolLit(x >= y)
		}
	}
	return bi(op, SBool, a, b)
}

func Lt(a, b *Term) *Term { return cmp("<", a, b) }
func Le(a, b *Term) *Term { return cmp("<=", a, b) }
func Gt(a, b *Term) *Term { return cmp(">", a, b) }
func Ge(a, b *Term) *Term { return cmp(">=", a, b) }

func Select(arr, idx *Term) *Term {
	k, v := arr.S.ArrParts()
	if idx.S != k {
		panic(fmt.Sprintf("select index sort %s, array %s: %s[%s]", idx.S, arr.S, arr, idx))
	}
	// read-over-write on syntactically identical index
	if arr.Op == "store" && !arr.IsSym && termEq(arr.Args[1], idx) {
		return arr.Args[2]
	}
	return bi("select", v, arr, idx)
}

func Store(arr, idx, val *Term) *Term {
	k, v := arr.S.ArrParts()
	if idx.S != k || val.S != v {
		panic(fmt.Sprintf("store sorts: arr %s idx %s val %s", arr.S, idx.S, val.S))
	}
	return bi("store", arr.S, arr, idx, val)
}

func Forall(bound []BVar, body *Term, pats ...[]*Term) *Term {
	if body == True {
		return True
	}
	if len(bound) == 0 {
		return body
	}
	return &Term{Op: "forall", Bound: bound, Args: []*Term{body}, S: SBool, Pats: pats}
}

func Exists(bound []BVar, body *Term) *Term {
	if body == False {
		return False
	}
	if len(bound) == 0 {
		return body
	}
	return &Term{Op: "exists", Bound: bound, Args: []*Term{body}, S: SBool}
}

// Bound-variable reference.
func BV(name string, s Sort) *Term { return &Term{Op: name, S: s} }

// ---------------------------------------------------------------------------
// Str / Slice / Seq / Event helpers (datatype constructors and accessors)

func MkStr(arr, off, ln *Term) *Term { return bi("mkstr", SStr, arr, off, ln) }
func SArr(s *Term) *Term {
	if s.Op == "mkstr" && !s.IsSym {
		return s.Args[0]
	}
	return bi("sarr", ArrS(SInt, SInt), s)
}
func SOff(s *Term) *Term {
	if s.Op == "mkstr" && !s.IsSym {
		return s.Args[1]
	}
	return bi("soff", SInt, s)
}
func SLen(s *Term) *Term {
	if s.Op == "mkstr" && !s.IsSym {
		return s.Args[2]
	}
	return bi("slen", SInt, s)
}
func SAt(s, i *Term) *Term { return Select(SArr(s), Add(SOff(s), i)) }
func SubStr(s, a, b *Term) *Term {
	return MkStr(SArr(s), Add(SOff(s), a), Sub(b, a))
}
func StrEq(a, b *Term) *Term {
	if a == b {
		return True
	}
	return bi("streq", SBool, a, b)
}
func Sid(s *Term) *Term { return bi("sid", SInt, s) }

func MkSlice(base, off, ln, cp *Term) *Term { return bi("mkslice", SSlice, base, off, ln, cp) }
func slAcc(name string, s *Term, i int) *Term {
	if s.Op == "mkslice" && !s.IsSym {
		return s.Args[i]
	}
	return bi(name, SInt, s)
}
func SlBase(s *Term) *Term { return slAcc("slbase", s, 0) }
func SlOff(s *Term) *Term  { return slAcc("sloff", s, 1) }
func SlLen(s *Term) *Term  { return slAcc("sllen", s, 2) }
func SlCap(s *Term) *Term  { return slAcc("slcap", s, 3) }

var NilSlice = MkSlice(IntLit(0), IntLit(0), IntLit(0), IntLit(0))

func MkSeq(arr, ln *Term) *Term { return bi("mkseq", SSeq, arr, ln) }
func SeqArr(s *Term) *Term {
	if s.Op == "mkseq" && !s.IsSym {
		return s.Args[0]
	}
	return bi("seqarr", ArrS(SInt, SInt), s)
}
func SeqLen(s *Term) *Term {
	if s.Op == "mkseq" && !s.IsSym {
		return s.Args[1]
	}
	return bi("seqlen", SInt, s)
}

func MkEvent(kind, obj *Term, str *Term, i *Term, obj2 *Term, seq *Term) *Term {
	return bi("mkev", SEvent, kind, obj, str, i, obj2, seq)
}
func evAcc(name string, s Sort, e *Term, i int) *Term {
	if e.Op == "mkev" && !e.IsSym {
		return e.Args[i]
	}
	return bi(name, s, e)
}
func EvKind(e *Term) *Term { return evAcc("ekind", SInt, e, 0) }
func EvObj(e *Term) *Term  { return evAcc("eobj", SInt, e, 1) }
func EvStr(e *Term) *Term  { return evAcc("estr", SStr, e, 2) }
func EvInt(e *Term) *Term  { return evAcc("eint", SInt, e, 3) }
func EvObj2(e *Term) *Term { return evAcc("eobj2", SInt, e, 4) }
func EvSeq(e *Term) *Term  { return evAcc("eseq", SInt, e, 5) }

// ---------------------------------------------------------------------------
// traversal / substitution

func (t *Term) Walk(f func(*Term)) {
	f(t)
	for _, a := range t.Args {
		a.Walk(f)
	}
	for _, p := range t.Pats {
		for _, x := range p {
			x.Walk(f)
		}
	}
}

func (t *Term) Size() int {
	n := 0
	t.Walk(func(*Term) { n++ })
	return n
}

// Subst replaces bound-variable / symbol occurrences by name.
func (t *Term) Subst(m map[string]*Term) *Term {
	if len(m) == 0 {
		return t
	}
	if len(t.Args) == 0 && t.Op != "forall" && t.Op != "exists" {
		if r, ok := m[t.Op]; ok {
			return r
		}
		return t
	}
	if t.Op == "forall" || t.Op == "exists" {
		// avoid capture: drop shadowed names
		m2 := m
		for _, b := range t.Bound {
			if _, ok := m[b.Name]; ok {
				m2 = map[string]*Term{}
				for k, v := range m {
					m2[k] = v
				}
				for _, b2 := range t.Bound {
					delete(m2, b2.Name)
				}
				break
			}
		}
		nt := *t
		nt.Args = []*Term{t.Args[0].Subst(m2)}
		if len(t.Pats) > 0 {
			nt.Pats = nil
			for _, p := range t.Pats {
				var np []*Term
				for _, x := range p {
					np = append(np, x.Subst(m2))
				}
				nt.Pats = append(nt.Pats, np)
			}
		}
		return &nt
	}
	changed := false
	nargs := make([]*Term, len(t.Args))
	for i, a := range t.Args {
		nargs[i] = a.Subst(m)
		if nargs[i] != a {
			changed = true
		}
	}
	if !changed {
		return t
	}
	return rebuild(t, nargs)
}

// rebuild re-applies simplifying constructors after substitution.
func rebuild(t *Term, args []*Term) *Term {
	if t.IsSym {
		nt := *t
		nt.Args = args
		return &nt
	}
	switch t.Op {
	case "and":
		return And(args...)
	case "or":
		return Or(args...)
	case "not":
		return Not(args[0])
	case "=>":
		return Imp(args[0], args[1])
	case "ite":
		return Ite(args[0], args[1], args[2])
	case "=":
		return Eq(args[0], args[1])
	case "+", "-", "*":
		if len(args) == 2 {
			return arith(t.Op, args[0], args[1])
		}
	case "<", "<=", ">", ">=":
		return cmp(t.Op, args[0], args[1])
	case "select":
		return Select(args[0], args[1])
	case "sarr":
		return SArr(args[0])
	case "soff":
		return SOff(args[0])
	case "slen":
		return SLen(args[0])
	case "slbase":
		return SlBase(args[0])
	case "sloff":
		return SlOff(args[0])
	case "sllen":
		return SlLen(args[0])
	case "slcap":
		return SlCap(args[0])
	case "seqarr":
		return SeqArr(args[0])
	case "seqlen":
		return SeqLen(args[0])
	case "ekind":
		return EvKind(args[0])
	case "eobj":
		return EvObj(args[0])
	case "estr":
		return EvStr(args[0])
	case "eint":
		return EvInt(args[0])
	case "eobj2":
		return EvObj2(args[0])
	case "eseq":
		return EvSeq(args[0])
	}
	nt := *t
	nt.Args = args
	return &nt
}

// ---------------------------------------------------------------------------
// declarations

type Decl struct {
	Name string
	Args []Sort
	Ret  Sort
}

type Decls struct {
	mu    sync.RWMutex
	m     map[string]*Decl
	order []string
	n     int
}

func NewDecls() *Decls { return &Decls{m: map[string]*Decl{}} }

func (d *Decls) Declare(name string, ret Sort, args ...Sort) {
	d.mu.Lock()
	defer d.mu.Unlock()
	if old, ok := d.m[name]; ok {
		if old.Ret != ret || len(old.Args) != len(args) {
			panic(fmt.Sprintf("redeclaration of %s: %v->%s vs %v->%s", name, old.Args, old.Ret, args, ret))
		}
		return
	}
	d.m[name] = &Decl{Name: name, Args: args, Ret: ret}
	d.order = append(d.order, name)
}

func sanitize(s string) string {
	var sb strings.Builder
	for _, r := range s {
		switch {
		case r >= 'a' && r <= 'z', r >= 'A' && r <= 'Z', r >= '0' && r <= '9', r == '_', r == '.', r == '$', r == '!', r == '@', r == '#':
			sb.WriteRune(r)
		default:
			sb.WriteByte('_')
		}
	}
	return sb.String()
}

func (d *Decls) Fresh(hint string, s Sort) *Term {
	d.mu.Lock()
	d.n++
	n := d.n
	d.mu.Unlock()
	name := fmt.Sprintf("%s!%d", sanitize(hint), n)
	d.Declare(name, s)
	return Sym(name, s)
}

func (d *Decls) Const(name string, s Sort) *Term {
	d.Declare(name, s)
	return Sym(name, s)
}

func (d *Decls) Fn(name string, ret Sort, args ...*Term) *Term {
	var as []Sort
	for _, a := range args {
		as = append(as, a.S)
	}
	d.Declare(name, ret, as...)
	return App(name, ret, args...)
}

// EmitFor writes declarations for every declared symbol used by the terms.
func (d *Decls) EmitFor(sb *strings.Builder, terms []*Term) {
	d.mu.RLock()
	defer d.mu.RUnlock()
	used := map[string]bool{}
	for _, t := range terms {
		t.Walk(func(x *Term) {
			if x.IsSym {
				used[x.Op] = true
			}
		})
	}
	var names []string
	for n := range used {
		if _, ok := d.m[n]; ok {
			names = append(names, n)
		} else {
			panic("undeclared symbol " + n)
		}
	}
	sort.Strings(names)
	for _, n := range names {
		dc := d.m[n]
		if len(dc.Args) == 0 {
			fmt.Fprintf(sb, "(declare-const %s %s)\n", dc.Name, dc.Ret)
		} else {
			var as []string
			for _, a := range dc.Args {
				as = append(as, string(a))
			}
			fmt.Fprintf(sb, "(declare-fun %s (%s) %s)\n", dc.Name, strings.Join(as, " "), dc.Ret)
		}
	}
}

const Preamble = `(declare-datatypes ((Str 0)) (((mkstr (sarr (Array Int Int)) (soff Int) (slen Int)))))
(declare-datatypes ((Slice 0)) (((mkslice (slbase Int) (sloff Int) (sllen Int) (slcap Int)))))
(declare-datatypes ((ISeq 0)) (((mkseq (seqarr (Array Int Int)) (seqlen Int)))))
(declare-datatypes ((Event 0)) (((mkev (ekind Int) (eobj Int) (estr Str) (eint Int) (eobj2 Int) (eseq Int)))))
(declare-fun sid (Str) Int)
(declare-fun catid (Int Int) Int)
(define-fun streq ((a Str) (b Str)) Bool (= (sid a) (sid b)))
(define-fun streqdef ((a Str) (b Str)) Bool (and (= (slen a) (slen b)) (forall ((i!q Int)) (=> (and (<= 0 i!q) (< i!q (slen a))) (= (select (sarr a) (+ (soff a) i!q)) (select (sarr b) (+ (soff b) i!q)))))))
`
