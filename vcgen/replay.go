package main

// Replay of solver counterexamples against the real code: the failing
// subgoal is re-solved with small-input bounds in an interactive z3 session,
// the function's inputs are read back from the model, and an in-package test
// injected with `go test -overlay` calls the real function.

import (
	"bufio"
	"encoding/json"
	"fmt"
	"go/types"
	"io"
	"os"
	"os/exec"
	"path/filepath"
	"strconv"
	"strings"
	"time"
)

type modelSession struct {
	cmd *exec.Cmd
	in  io.WriteCloser
	out *bufio.Reader
}

func startModel(query string, timeoutS int) (*modelSession, string, error) {
	// strip the final check-sat / get-value; we drive those interactively
	if i := strings.LastIndex(query, "(check-sat)"); i >= 0 {
		query = query[:i]
	}
	cmd := exec.Command("z3-new", "-in", fmt.Sprintf("-T:%d", timeoutS))
	in, _ := cmd.StdinPipe()
	outp, _ := cmd.StdoutPipe()
	cmd.Stderr = nil
	if err := cmd.Start(); err != nil {
		return nil, "", err
	}
	ms := &modelSession{cmd: cmd, in: in, out: bufio.NewReader(outp)}
	io.WriteString(in, query)
	io.WriteString(in, "(check-sat)\n")
	line, err := ms.out.ReadString('\n')
	if err != nil {
		ms.close()
		return nil, "", err
	}
	return ms, strings.TrimSpace(line), nil
}

func (ms *modelSession) close() {
	ms.in.Close()
	done := make(chan struct{})
	go func() { ms.cmd.Wait(); close(done) }()
	select {
	case <-done:
	case <-time.After(2 * time.Second):
		ms.cmd.Process.Kill()
	}
}

// eval returns the printed value of a term in the model.
func (ms *modelSession) eval(term string) (string, error) {
	if _, err := io.WriteString(ms.in, "(get-value ("+term+"))\n"); err != nil {
		return "", err
	}
	// read one balanced s-expression
	var sb strings.Builder
	depth := 0
	started := false
	for {
		r, _, err := ms.out.ReadRune()
		if err != nil {
			return "", err
		}
		sb.WriteRune(r)
		if r == '(' {
			depth++
			started = true
		} else if r == ')' {
			depth--
		}
		if started && depth == 0 {
			break
		}
	}
	s := strings.TrimSpace(sb.String())
	if strings.HasPrefix(s, "(error") {
		return "", fmt.Errorf("%s", s)
	}
	// ((term value)) -> value : strip outer parens and the echoed term
	s = strings.TrimSpace(s[2 : len(s)-2])
	// the echoed term is the first balanced s-expr / atom
	i := skipSexp(s, 0)
	return strings.TrimSpace(s[i:]), nil
}

func skipSexp(s string, i int) int {
	for i < len(s) && (s[i] == ' ' || s[i] == '\n') {
		i++
	}
	if i >= len(s) {
		return i
	}
	if s[i] != '(' {
		for i < len(s) && s[i] != ' ' && s[i] != '\n' && s[i] != ')' {
			i++
		}
		return i
	}
	depth := 0
	for ; i < len(s); i++ {
		if s[i] == '(' {
			depth++
		} else if s[i] == ')' {
			depth--
			if depth == 0 {
				return i + 1
			}
		}
	}
	return i
}

func (ms *modelSession) evalInt(t *Term) (int64, error) {
	v, err := ms.eval(t.String())
	if err != nil {
		return 0, err
	}
	v = strings.TrimSpace(v)
	neg := false
	if strings.HasPrefix(v, "(-") {
		neg = true
		v = strings.TrimSpace(strings.TrimSuffix(strings.TrimPrefix(v, "(-"), ")"))
	}
	n, err := strconv.ParseInt(v, 10, 64)
	if err != nil {
		return 0, fmt.Errorf("not an integer: %q", v)
	}
	if neg {
		n = -n
	}
	return n, nil
}

func (ms *modelSession) evalBool(t *Term) (bool, error) {
	v, err := ms.eval(t.String())
	if err != nil {
		return false, err
	}
	return strings.TrimSpace(v) == "true", nil
}

func (ms *modelSession) evalStr(t *Term) (string, error) {
	n, err := ms.evalInt(SLen(t))
	if err != nil {
		return "", err
	}
	if n < 0 {
		n = 0 // a string the code never looks at: any value will do
	}
	if n > 4096 {
		return "", fmt.Errorf("string length %d out of replay range", n)
	}
	b := make([]byte, n)
	for i := int64(0); i < n; i++ {
		c, err := ms.evalInt(SAt(t, IntLit(i)))
		if err != nil {
			return "", err
		}
		b[i] = byte(c)
	}
	return string(b), nil
}

// goLiteral renders the model value of v (of Go type ty, read in the entry
// state) as Go source.
func (ex *Exec) goLiteral(ms *modelSession, v Val, ty types.Type, depth int) (string, error) {
	if depth > 4 {
		return "nil", nil
	}
	if isOpaqueIntStruct(ty) {
		n, err := ms.evalInt(v.T)
		if err != nil {
			return "", err
		}
		return fmt.Sprintf("time.Unix(0, %d)", n), nil
	}
	switch u := ty.Underlying().(type) {
	case *types.Basic:
		switch {
		case u.Info()&types.IsString != 0:
			s, err := ms.evalStr(v.T)
			if err != nil {
				return "", err
			}
			return strconv.Quote(s), nil
		case u.Info()&types.IsBoolean != 0:
			b, err := ms.evalBool(v.T)
			return fmt.Sprint(b), err
		case u.Info()&types.IsInteger != 0:
			n, err := ms.evalInt(v.T)
			if err != nil {
				return "", err
			}
			return fmt.Sprintf("%s(%d)", types.TypeString(ty, qualifierFor(ex.pkg)), n), nil
		}
	case *types.Slice:
		n, err := ms.evalInt(SlLen(v.T))
		if err != nil {
			return "", err
		}
		base, err := ms.evalInt(SlBase(v.T))
		if err != nil {
			return "", err
		}
		if base == 0 && n == 0 {
			return "nil", nil
		}
		if n < 0 {
			n = 0
		}
		if n > 64 {
			return "", fmt.Errorf("slice length %d out of replay range", n)
		}
		es := sortOf(u.Elem())
		h := ex.getHeap(ex.init, heapArrName(u.Elem()), ArrS(SInt, ArrS(SInt, es)))
		var elems []string
		for i := int64(0); i < n; i++ {
			et := Select(Select(h, SlBase(v.T)), Add(SlOff(v.T), IntLit(i)))
			l, err := ex.goLiteral(ms, Val{T: et, Ty: u.Elem()}, u.Elem(), depth+1)
			if err != nil {
				return "", err
			}
			elems = append(elems, l)
		}
		return types.TypeString(ty, qualifierFor(ex.pkg)) + "{" + strings.Join(elems, ", ") + "}", nil
	case *types.Pointer:
		r, err := ms.evalInt(v.T)
		if err != nil {
			return "", err
		}
		if r == 0 {
			return "nil", nil
		}
		st, ok := u.Elem().Underlying().(*types.Struct)
		if !ok {
			return "", fmt.Errorf("pointer to %s not replayable", u.Elem())
		}
		var fields []string
		for i := 0; i < st.NumFields(); i++ {
			f := st.Field(i)
			name := heapFieldName(u.Elem(), f.Name())
			s, touched := ex.heapSort[name]
			if !touched || isStructVal(f.Type()) {
				continue
			}
			if _, isIface := f.Type().Underlying().(*types.Interface); isIface {
				continue
			}
			if _, isSig := f.Type().Underlying().(*types.Signature); isSig {
				continue
			}
			if _, isMap := f.Type().Underlying().(*types.Map); isMap {
				continue
			}
			if _, isChan := f.Type().Underlying().(*types.Chan); isChan {
				continue
			}
			fv := Select(ex.heapInit(name, s), v.T)
			l, err := ex.goLiteral(ms, Val{T: fv, Ty: f.Type()}, f.Type(), depth+1)
			if err != nil {
				return "", err
			}
			fields = append(fields, f.Name()+": "+l)
		}
		return "&" + types.TypeString(u.Elem(), qualifierFor(ex.pkg)) + "{" + strings.Join(fields, ", ") + "}", nil
	case *types.Interface, *types.Signature, *types.Map, *types.Chan:
		return "nil", nil
	}
	return "", fmt.Errorf("type %s not replayable", ty)
}

func qualifierFor(pkg *types.Package) types.Qualifier {
	return func(p *types.Package) string {
		if p == pkg {
			return ""
		}
		return p.Name()
	}
}

// sizeBounds: constraints keeping the inputs small enough to print.
func (ex *Exec) sizeBounds(n int64, ascii bool) []*Term {
	var out []*Term
	hi := int64(255)
	if ascii {
		hi = 126
	}
	strBound := func(s *Term, lim int64) {
		out = append(out, Le(SLen(s), IntLit(lim)), Ge(SLen(s), IntLit(0)))
		for i := int64(0); i < lim; i++ {
			b := SAt(s, IntLit(i))
			out = append(out, And(Le(IntLit(0), b), Le(b, IntLit(hi))))
		}
	}
	var walk func(v Val, ty types.Type, depth int)
	walk = func(v Val, ty types.Type, depth int) {
		if v.T == nil || depth > 2 {
			return
		}
		switch v.T.S {
		case SStr:
			strBound(v.T, n)
		case SSlice:
			out = append(out, Le(SlLen(v.T), IntLit(4)), Le(SlOff(v.T), IntLit(2)))
			if sl, ok := ty.Underlying().(*types.Slice); ok && sortOf(sl.Elem()) == SStr {
				h := ex.getHeap(ex.init, heapArrName(sl.Elem()), ArrS(SInt, ArrS(SInt, SStr)))
				for i := int64(0); i < 4; i++ {
					strBound(Select(Select(h, SlBase(v.T)), Add(SlOff(v.T), IntLit(i))), n)
				}
			}
		case SInt:
			if p, ok := ty.Underlying().(*types.Pointer); ok {
				if st, ok := p.Elem().Underlying().(*types.Struct); ok {
					for i := 0; i < st.NumFields(); i++ {
						f := st.Field(i)
						name := heapFieldName(p.Elem(), f.Name())
						if s, touched := ex.heapSort[name]; touched && !isStructVal(f.Type()) {
							walk(Val{T: Select(ex.heapInit(name, s), v.T), Ty: f.Type()}, f.Type(), depth+1)
						}
					}
				}
			}
		}
	}
	for _, p := range ex.fn.Params {
		walk(ex.params[p.Name()], p.Type(), 0)
	}
	return out
}

// tryReplay attempts to confirm a refuted obligation on the real code.
// Returns the replay file path and whether the violation was reproduced.
func tryReplay(V *Verifier, verif, repo, prop string, r *oblResult) (string, bool) {
	dir := filepath.Join(outRoot, "replays", prop)
	os.MkdirAll(dir, 0o755)
	base := filepath.Join(dir, sanitize(r.O.Name))
	note := ""
	confirmed := false
	goFile := ""
	if (r.Status == "failed" || r.Status == "unknown") && r.SG != nil {
		src, testName, err := r.O.ex.buildReplayTest(r)
		if err != nil {
			note = "replay not generated: " + err.Error()
		} else {
			goFile = base + "_test.go"
			os.WriteFile(goFile, []byte(src), 0o644)
			out, ok := runReplay(repo, r.O.ex.fn.Pkg.Pkg.Name(), goFile, testName, r.O.Kind)
			note = "replay output:\n" + out
			confirmed = ok
		}
	}
	txt := writeReplay(verif, prop, r, note)
	if goFile != "" && confirmed {
		// the .go file is the replay; keep the .txt beside it with the verifier's output
		return goFile, true
	}
	return txt, false
}

func runReplay(repo, pkgName, goFile, testName, kind string) (string, bool) {
	tmp, err := os.MkdirTemp(scratchDir, "replay")
	if err != nil {
		return err.Error(), false
	}
	defer os.RemoveAll(tmp)
	target := filepath.Join(repo, pkgName, "zz_verif_replay_test.go")
	ov := map[string]map[string]string{"Replace": {target: goFile}}
	data, _ := json.Marshal(ov)
	ovFile := filepath.Join(tmp, "ov.json")
	os.WriteFile(ovFile, data, 0o644)
	cmd := exec.Command("go", "test", "-overlay", ovFile, "-vet=off", "-count=1", "-timeout", "60s", "-run", "^"+testName+"$", "-v", "./"+pkgName)
	cmd.Dir = repo
	cmd.Env = append(os.Environ(), "GOFLAGS=-mod=mod", "GOPROXY=off", "GOSUMDB=off", "GOTOOLCHAIN=local", "GOCACHE="+filepath.Join(tmp, "gocache"))
	// reuse the user's build cache when available: much faster
	if gc := os.Getenv("GOCACHE"); gc != "" {
		cmd.Env = append(cmd.Env, "GOCACHE="+gc)
	} else if home, err := os.UserHomeDir(); err == nil {
		cmd.Env = append(cmd.Env, "GOCACHE="+filepath.Join(home, ".cache", "go-build"))
	}
	outB, _ := cmd.CombinedOutput()
	out := string(outB)
	ok := false
	switch {
	case strings.HasPrefix(kind, "panic:"):
		ok = strings.Contains(out, "REPLAY-PANIC")
	default:
		ok = strings.Contains(out, "REPLAY-POST-VIOLATED")
	}
	return truncate(out, 4000), ok
}

// buildReplayTest produces the Go source of an in-package test that calls
// the real function on the inputs of a (size-bounded) counterexample.
func (ex *Exec) buildReplayTest(r *oblResult) (string, string, error) {
	// bounded, quantifier-free candidate search (see ground.go)
	const bound = 8
	ms, status, err := startModel(ex.candidateQuery(r.O, *r.SG, bound, true), 10)
	if err != nil {
		return "", "", err
	}
	if status != "sat" {
		ms.close()
		ms, status, err = startModel(ex.candidateQuery(r.O, *r.SG, bound, false), 10)
		if err != nil {
			return "", "", err
		}
	}
	defer ms.close()
	if status != "sat" {
		return "", "", fmt.Errorf("no candidate counterexample with inputs bounded to %d bytes (%s)", bound, status)
	}
	fn := ex.fn
	var args []string
	var setup []string
	needTime := false
	for i, p := range fn.Params {
		lit, err := ex.goLiteral(ms, ex.params[p.Name()], p.Type(), 0)
		if err != nil {
			return "", "", fmt.Errorf("parameter %s: %v", p.Name(), err)
		}
		if strings.Contains(lit, "time.Unix") {
			needTime = true
		}
		name := fmt.Sprintf("a%d", i)
		setup = append(setup, fmt.Sprintf("\t%s := %s", name, lit))
		setup = append(setup, fmt.Sprintf("\tt.Logf(\"input %s = %%#v\", %s)", p.Name(), name))
		args = append(args, name)
	}
	testName := "TestVerifReplay_" + sanitizeGo(r.O.Name)
	var call string
	if fn.Signature.Recv() != nil {
		call = fmt.Sprintf("%s.%s(%s)", args[0], fn.Name(), strings.Join(args[1:], ", "))
	} else {
		call = fmt.Sprintf("%s(%s)", fn.Name(), strings.Join(args, ", "))
	}
	if fn.Signature.Variadic() && len(args) > 0 {
		call = call[:len(call)-1] + "...)"
	}
	var src strings.Builder
	fmt.Fprintf(&src, "package %s\n\n// Replay of obligation %s\n// (%s, %s)\n// generated by goircvc from a solver counterexample.\n\nimport (\n\t\"fmt\"\n\t\"testing\"\n", fn.Pkg.Pkg.Name(), r.O.Name, r.O.Pos, r.O.Text)
	postCheck := ""
	if !strings.HasPrefix(r.O.Kind, "panic:") {
		postCheck = ex.goPostCheck(r.O)
	}
	if strings.Contains(postCheck, "strings.") {
		src.WriteString("\t\"strings\"\n")
	}
	if needTime {
		src.WriteString("\t\"time\"\n")
	}
	src.WriteString(")\n\n")
	fmt.Fprintf(&src, "func %s(t *testing.T) {\n", testName)
	src.WriteString("\tdefer func() {\n\t\tif r := recover(); r != nil {\n\t\t\tfmt.Printf(\"REPLAY-PANIC: %v\\n\", r)\n\t\t}\n\t}()\n")
	for _, s := range setup {
		src.WriteString(s + "\n")
	}
	nres := fn.Signature.Results().Len()
	if nres > 0 {
		var rs []string
		for i := 0; i < nres; i++ {
			rs = append(rs, fmt.Sprintf("r%d", i))
		}
		fmt.Fprintf(&src, "\t%s := %s\n", strings.Join(rs, ", "), call)
		for _, rn := range rs {
			fmt.Fprintf(&src, "\tt.Logf(\"result %s = %%#v\", %s)\n", rn, rn)
		}
	} else {
		fmt.Fprintf(&src, "\t%s\n", call)
	}
	src.WriteString("\tfmt.Println(\"REPLAY-RETURNED\")\n")
	if postCheck != "" {
		src.WriteString(postCheck)
	}
	src.WriteString("}\n")
	if strings.Contains(postCheck, "verifFirstNL") {
		src.WriteString(goPostHelpers)
	}
	return src.String(), testName, nil
}

func sanitizeGo(s string) string {
	var sb strings.Builder
	for _, r := range s {
		switch {
		case r >= 'a' && r <= 'z', r >= 'A' && r <= 'Z', r >= '0' && r <= '9':
			sb.WriteRune(r)
		default:
			sb.WriteByte('_')
		}
	}
	return sb.String()
}

// withExtraDecls adds declarations of entry-state heap constants that the
// extraction may query but the failing query did not mention.
func (ex *Exec) withExtraDecls(q string) string {
	var sb strings.Builder
	for name, s := range ex.heapSort {
		c := name + "@pre"
		if !strings.Contains(q, "(declare-const "+c+" ") {
			fmt.Fprintf(&sb, "(declare-const %s %s)\n", c, s)
		}
	}
	// declarations must follow the datatype preamble
	i := strings.Index(q, "(declare-fun sid (Str) Int)\n")
	if i < 0 {
		return q
	}
	i += len("(declare-fun sid (Str) Int)\n")
	return q[:i] + sb.String() + q[i:]
}

