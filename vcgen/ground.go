package main

// Bounded candidate search for counterexamples. When an obligation is not
// discharged, its hypotheses are weakened to a quantifier-free formula by
// instantiating integer quantifiers over a small range (and skolemising the
// rest), inputs are bounded to short strings / slices, and z3 is asked for a
// model. The model is only a *candidate*: it counts for nothing unless the
// replay on the real code reproduces the failure.

import (
	"fmt"
	"strings"
)

type grounder struct {
	ex   *Exec
	n    int64
	apps map[string][][]*Term // ground applications of uninterpreted functions: name -> argument lists
}

func hasQuant(t *Term) bool {
	found := false
	t.Walk(func(x *Term) {
		if !x.IsSym && (x.Op == "forall" || x.Op == "exists" || x.Op == "streq") {
			found = true
		}
	})
	return found
}

// ground returns a quantifier-free formula that is implied by t (pos) or
// implies t (!pos), up to skolemisation.
func (g *grounder) ground(t *Term, pos bool) *Term {
	if t.S != SBool || !hasQuant(t) {
		return t
	}
	if t.IsSym {
		return t
	}
	switch t.Op {
	case "and":
		var as []*Term
		for _, a := range t.Args {
			as = append(as, g.ground(a, pos))
		}
		return And(as...)
	case "or":
		var as []*Term
		for _, a := range t.Args {
			as = append(as, g.ground(a, pos))
		}
		return Or(as...)
	case "not":
		return Not(g.ground(t.Args[0], !pos))
	case "=>":
		return Imp(g.ground(t.Args[0], !pos), g.ground(t.Args[1], pos))
	case "=":
		if t.Args[0].S == SBool {
			a, b := t.Args[0], t.Args[1]
			return And(g.ground(Imp(a, b), pos), g.ground(Imp(b, a), pos))
		}
	case "ite":
		c, a, b := t.Args[0], t.Args[1], t.Args[2]
		return And(g.ground(Imp(c, a), pos), g.ground(Imp(Not(c), b), pos))
	case "streq":
		a, b := t.Args[0], t.Args[1]
		i := BV("i!g", SInt)
		def := And(Eq(SLen(a), SLen(b)), Forall([]BVar{{"i!g", SInt}}, Imp(And(Le(IntLit(0), i), Lt(i, SLen(a))), Eq(SAt(a, i), SAt(b, i)))))
		return g.ground(def, pos)
	case "forall", "exists":
		universal := (t.Op == "forall") == pos
		if !universal {
			// skolemise
			m := map[string]*Term{}
			for _, b := range t.Bound {
				m[b.Name] = g.ex.D.Fresh("gsk."+strings.SplitN(b.Name, "!", 2)[0], b.S)
			}
			return g.ground(t.Args[0].Subst(m), pos)
		}
		// a single non-integer variable: instantiate with the arguments of the
		// ground applications of the functions it is passed to (E-matching lite)
		if len(t.Bound) == 1 && t.Bound[0].S != SInt {
			name := t.Bound[0].Name
			cands := map[string]*Term{}
			t.Args[0].Walk(func(x *Term) {
				if !x.IsSym || len(x.Args) == 0 {
					return
				}
				for ai, a := range x.Args {
					if len(a.Args) == 0 && a.Op == name && !a.IsSym {
						for _, ga := range g.apps[x.Op] {
							if ai < len(ga) && ga[ai].S == t.Bound[0].S {
								cands[ga[ai].String()] = ga[ai]
							}
						}
					}
				}
			})
			var insts []*Term
			for _, c := range cands {
				insts = append(insts, g.ground(t.Args[0].Subst(map[string]*Term{name: c}), pos))
			}
			if t.Op == "forall" {
				return And(insts...)
			}
			return Or(insts...)
		}
		// instantiate integer variables over -1..n ; others cannot be enumerated
		for _, b := range t.Bound {
			if b.S != SInt {
				if pos {
					return True
				}
				return False
			}
		}
		if len(t.Bound) > 2 {
			if pos {
				return True
			}
			return False
		}
		var insts []*Term
		var rec func(i int, m map[string]*Term)
		rec = func(i int, m map[string]*Term) {
			if i == len(t.Bound) {
				m2 := map[string]*Term{}
				for k, v := range m {
					m2[k] = v
				}
				insts = append(insts, g.ground(t.Args[0].Subst(m2), pos))
				return
			}
			lim := g.n
			if len(t.Bound) > 1 {
				lim = g.n / 2
			}
			for k := int64(-1); k <= lim; k++ {
				m[t.Bound[i].Name] = IntLit(k)
				rec(i+1, m)
			}
		}
		rec(0, map[string]*Term{})
		if t.Op == "forall" {
			return And(insts...)
		}
		return Or(insts...)
	}
	// quantifier buried in an unsupported position: drop
	if pos {
		return True
	}
	return False
}

// groundAsserts produces the quantifier-free candidate-search problem.
func (ex *Exec) groundAsserts(asserts []*Term, n int64) []*Term {
	g := &grounder{ex: ex, n: n, apps: map[string][][]*Term{}}
	bound := map[string]bool{}
	for _, a := range asserts {
		a.Walk(func(x *Term) {
			for _, b := range x.Bound {
				bound[b.Name] = true
			}
		})
	}
	isGround := func(t *Term) bool {
		ok := true
		t.Walk(func(x *Term) {
			if len(x.Args) == 0 && !x.IsSym && bound[x.Op] {
				ok = false
			}
		})
		return ok
	}
	for _, a := range asserts {
		a.Walk(func(x *Term) {
			if x.IsSym && len(x.Args) > 0 && strings.HasPrefix(x.Op, "sf.") && isGround(x) {
				g.apps[x.Op] = append(g.apps[x.Op], x.Args)
			}
		})
	}
	var out []*Term
	for _, a := range asserts {
		out = append(out, g.ground(a, true))
	}
	// instances of the engine axioms for the ground terms that occur
	seen := map[string]bool{}
	var sidTerms []*Term
	var work []*Term
	work = append(work, out...)
	for len(work) > 0 {
		t := work[len(work)-1]
		work = work[:len(work)-1]
		t.Walk(func(x *Term) {
			key := ""
			switch {
			case x.IsSym && x.Op == "sconcat" && len(x.Args) == 2:
				key = x.String()
				if seen[key] {
					return
				}
				seen[key] = true
				a, b := x.Args[0], x.Args[1]
				fs := []*Term{Eq(SOff(x), IntLit(0)), Eq(SLen(x), Add(SLen(a), SLen(b)))}
				for i := int64(0); i <= 2*n; i++ {
					ii := IntLit(i)
					fs = append(fs, Imp(Lt(ii, SLen(a)), Eq(Select(SArr(x), ii), SAt(a, ii))))
					fs = append(fs, Imp(And(Le(SLen(a), ii), Lt(ii, Add(SLen(a), SLen(b)))), Eq(Select(SArr(x), ii), SAt(b, Sub(ii, SLen(a))))))
				}
				out = append(out, fs...)
			case x.IsSym && x.Op == "chr" && len(x.Args) == 1:
				key = x.String()
				if seen[key] {
					return
				}
				seen[key] = true
				c := x.Args[0]
				out = append(out, Eq(SOff(x), IntLit(0)),
					Imp(And(Le(IntLit(0), c), Lt(c, IntLit(128))), And(Eq(SLen(x), IntLit(1)), Eq(Select(SArr(x), IntLit(0)), c))),
					Imp(And(Le(IntLit(128), c), Lt(c, IntLit(2048))), Eq(SLen(x), IntLit(2))))
			case !x.IsSym && x.Op == "sid" && len(x.Args) == 1:
				key = x.String()
				if seen[key] {
					return
				}
				seen[key] = true
				sidTerms = append(sidTerms, x)
			}
		})
	}
	for i := 0; i < len(sidTerms); i++ {
		for j := i + 1; j < len(sidTerms); j++ {
			a, b := sidTerms[i].Args[0], sidTerms[j].Args[0]
			eq := Eq(Eq(sidTerms[i], sidTerms[j]), StrEq(a, b))
			out = append(out, g.ground(eq, true))
		}
	}
	return out
}

// candidateQuery renders the bounded, quantifier-free search problem.
func (ex *Exec) candidateQuery(o *Obligation, sg subgoal, n int64, ascii bool) string {
	asserts, neg, extra := ex.collectAsserts(o, sg, "")
	all := append(append(append([]*Term{}, asserts...), extra...), neg)
	all = append(all, ex.sizeBounds(n, ascii)...)
	gr := ex.groundAsserts(all, n)
	var sb strings.Builder
	sb.WriteString(Preamble)
	ex.D.EmitFor(&sb, gr)
	// entry-state heap constants the extraction may ask about
	for name, s := range ex.heapSort {
		c := name + "@pre"
		if _, declared := ex.D.m[c]; !declared {
			ex.D.Declare(c, s)
		}
	}
	var extraDecl strings.Builder
	text := sb.String()
	for name, s := range ex.heapSort {
		c := name + "@pre"
		if !strings.Contains(text, "(declare-const "+c+" ") {
			fmt.Fprintf(&extraDecl, "(declare-const %s %s)\n", c, s)
		}
	}
	sb.WriteString(extraDecl.String())
	for _, a := range gr {
		if a == True {
			continue
		}
		sb.WriteString("(assert ")
		sb.WriteString(a.String())
		sb.WriteString(")\n")
	}
	sb.WriteString("(check-sat)\n")
	return sb.String()
}
