package main

// Closure obligations: mechanical whole-package checks over the SSA of the
// working tree that make per-function contracts add up to a package-level
// claim ("the only send on conn.out is in Raw", "rateLimit is only called
// from write"). They are decided by scanning every function of goirc's
// packages, not by the solver; the backend is reported as "ssa-scan".

import (
	"fmt"
	"go/token"
	"go/types"
	"sort"
	"strings"

	"golang.org/x/tools/go/ssa"
)

type closureResult struct {
	Name   string
	Tags   []string
	Text   string
	OK     bool
	Detail string
	Sites  int
}

func (V *Verifier) ourFunctions() []*ssa.Function {
	var out []*ssa.Function
	for _, fn := range V.allFns {
		if fn.Pkg != nil && V.ourPkgs[fn.Pkg.Pkg.Path()] && len(fn.Blocks) > 0 {
			out = append(out, fn)
		}
	}
	sort.Slice(out, func(i, j int) bool { return out[i].String() < out[j].String() })
	return out
}

func fieldOf(v ssa.Value) (string, bool) {
	// T.f if v is a load of (or the address of) field f of struct T
	if u, ok := v.(*ssa.UnOp); ok && u.Op == token.MUL {
		v = u.X
	}
	if fa, ok := v.(*ssa.FieldAddr); ok {
		st, named, ok := derefStruct(fa.X.Type())
		if ok {
			return shortStruct(named) + "." + st.Field(fa.Field).Name(), true
		}
	}
	return "", false
}

func (V *Verifier) runClosures(prop string) []closureResult {
	var out []closureResult
	for _, c := range V.db.Closures {
		tags, text := parseTags(c.Text)
		if prop != "all" && prop != "" && !hasTag(tags, prop) {
			continue
		}
		i := strings.Index(text, " in ")
		if i < 0 {
			out = append(out, closureResult{Name: "closure/" + text, Tags: tags, Text: text, Detail: "malformed closure clause"})
			continue
		}
		head := strings.Fields(text[:i])
		allowed := map[string]bool{}
		for _, a := range splitTop(text[i+4:]) {
			allowed[strings.TrimSpace(a)] = true
		}
		res := closureResult{Name: "closure/" + strings.Join(head, ":"), Tags: tags, Text: text, OK: true}
		var bad []string
		// every allowed function must exist (a renamed function is not a pass)
		pkgName := "client"
		if strings.Contains(c.File, "/state/") {
			pkgName = "state"
		}
		for a := range allowed {
			if V.allFns[pkgName+"."+a] == nil {
				bad = append(bad, "listed function "+a+" does not exist")
			}
		}
		if len(head) != 2 {
			out = append(out, closureResult{Name: res.Name, Tags: tags, Text: text, Detail: "malformed closure clause"})
			continue
		}
		kind, target := head[0], head[1]
		for _, fn := range V.ourFunctions() {
			if fn.Pkg.Pkg.Name() != pkgName {
				continue
			}
			key := fnKeyOf(fn)
			for _, b := range fn.Blocks {
				for _, in := range b.Instrs {
					hit := false
					switch kind {
					case "field_access", "field_write":
						if fa, ok := in.(*ssa.FieldAddr); ok {
							st, named, ok := derefStruct(fa.X.Type())
							if ok && shortStruct(named)+"."+st.Field(fa.Field).Name() == target {
								if kind == "field_access" {
									hit = true
								} else {
									for _, r := range *fa.Referrers() {
										if s, ok := r.(*ssa.Store); ok && s.Addr == fa {
											hit = true
										}
									}
								}
							}
						}
					case "sends_on":
						switch x := in.(type) {
						case *ssa.Send:
							if f, ok := fieldOf(x.Chan); ok && f == target {
								hit = true
							}
						case *ssa.Select:
							for _, s := range x.States {
								if s.Dir == types.SendOnly {
									if f, ok := fieldOf(s.Chan); ok && f == target {
										hit = true
									}
								}
							}
						}
					case "recvs_on":
						switch x := in.(type) {
						case *ssa.UnOp:
							if x.Op == token.ARROW {
								if f, ok := fieldOf(x.X); ok && f == target {
									hit = true
								}
							}
						case *ssa.Select:
							for _, s := range x.States {
								if s.Dir == types.RecvOnly {
									if f, ok := fieldOf(s.Chan); ok && f == target {
										hit = true
									}
								}
							}
						}
					case "callers":
						if ci, ok := in.(ssa.CallInstruction); ok {
							if callee := ci.Common().StaticCallee(); callee != nil && callee.Pkg != nil {
								if (fnKeyOf(callee) == target && callee.Pkg.Pkg.Name() == pkgName) || callee.Pkg.Pkg.Name()+"."+fnKeyOf(callee) == target {
									hit = true
								}
							}
						}
						// the function used as a value (method expression, closure) also counts
						for _, op := range in.Operands(nil) {
							if f, ok := (*op).(*ssa.Function); ok && f.Pkg != nil && fnKeyOf(f) == target {
								if ci, isCall := in.(ssa.CallInstruction); !isCall || ci.Common().Value != *op {
									hit = true
								}
							}
						}
					default:
						bad = append(bad, "unknown closure kind "+kind)
					}
					if hit {
						res.Sites++
						if !allowed[key] {
							bad = append(bad, fmt.Sprintf("%s at %s", key, V.fset.Position(in.Pos())))
						}
					}
				}
			}
		}
		if res.Sites == 0 && len(bad) == 0 {
			bad = append(bad, "no site found at all (vacuous closure clause)")
		}
		if len(bad) > 0 {
			res.OK = false
			sort.Strings(bad)
			res.Detail = strings.Join(bad, "; ")
		}
		out = append(out, res)
	}
	return out
}
