package main

// Closure obligations: mechanical whole-package checks over the SSA of the
// working tree that make per-function contracts add up to a package-level
// claim ("the only send on conn.out is in Raw", "rateLimit is only called
// from write"). They are decided by scanning every function of goirc's
// packages, not by the solver; the backend is reported as "ssa-scan".

import (
	"fmt"
	"go/constant"
	"strconv"
	"go/token"
	"go/types"
	"sort"
	"strings"

	"golang.org/x/tools/go/ssa"
)

type closureResult struct {
	Name   string
	Tags   []string
	Text   string
	OK     bool
	Detail string
	Sites  int
}

func (V *Verifier) ourFunctions() []*ssa.Function {
	var out []*ssa.Function
	for _, fn := range V.allFns {
		if fn.Pkg != nil && V.ourPkgs[fn.Pkg.Pkg.Path()] && len(fn.Blocks) > 0 {
			out = append(out, fn)
		}
	}
	sort.Slice(out, func(i, j int) bool { return out[i].String() < out[j].String() })
	return out
}

func fieldOf(v ssa.Value) (string, bool) {
	// T.f if v is a load of (or the address of) field f of struct T
	if u, ok := v.(*ssa.UnOp); ok && u.Op == token.MUL {
		v = u.X
	}
	if fa, ok := v.(*ssa.FieldAddr); ok {
		st, named, ok := derefStruct(fa.X.Type())
		if ok {
			return shortStruct(named) + "." + st.Field(fa.Field).Name(), true
		}
	}
	return "", false
}

func (V *Verifier) runClosures(prop string) []closureResult {
	var out []closureResult
	for _, c := range V.db.Closures {
		tags, text := parseTags(c.Text)
		if prop != "all" && prop != "" && !hasTag(tags, prop) {
			continue
		}
		if strings.HasPrefix(text, "const_args ") {
			out = append(out, V.constArgsClosure(tags, text, c.File))
			continue
		}
		i := strings.Index(text, " in ")
		if i < 0 {
			out = append(out, closureResult{Name: "closure/" + text, Tags: tags, Text: text, Detail: "malformed closure clause"})
			continue
		}
		head := strings.Fields(text[:i])
		allowed := map[string]bool{}
		for _, a := range splitTop(text[i+4:]) {
			allowed[strings.TrimSpace(a)] = true
		}
		res := closureResult{Name: "closure/" + strings.Join(head, ":"), Tags: tags, Text: text, OK: true}
		var bad []string
		// every allowed function must exist (a renamed function is not a pass)
		pkgName := "client"
		if strings.Contains(c.File, "/state/") {
			pkgName = "state"
		}
		for a := range allowed {
			if a == "(none)" {
				continue
			}
			if V.allFns[pkgName+"."+a] == nil {
				bad = append(bad, "listed function "+a+" does not exist")
			}
		}
		if len(head) != 2 {
			out = append(out, closureResult{Name: res.Name, Tags: tags, Text: text, Detail: "malformed closure clause"})
			continue
		}
		kind, target := head[0], head[1]
		for _, fn := range V.ourFunctions() {
			if fn.Pkg.Pkg.Name() != pkgName {
				continue
			}
			key := fnKeyOf(fn)
			for _, b := range fn.Blocks {
				for _, in := range b.Instrs {
					hit := false
					switch kind {
					case "field_access", "field_write":
						if fa, ok := in.(*ssa.FieldAddr); ok {
							st, named, ok := derefStruct(fa.X.Type())
							if ok && shortStruct(named)+"."+st.Field(fa.Field).Name() == target {
								if kind == "field_access" {
									hit = true
								} else {
									for _, r := range *fa.Referrers() {
										if s, ok := r.(*ssa.Store); ok && s.Addr == fa {
											hit = true
										}
									}
								}
							}
						}
					case "sends_on":
						switch x := in.(type) {
						case *ssa.Send:
							if f, ok := fieldOf(x.Chan); ok && f == target {
								hit = true
							}
						case *ssa.Select:
							for _, s := range x.States {
								if s.Dir == types.SendOnly {
									if f, ok := fieldOf(s.Chan); ok && f == target {
										hit = true
									}
								}
							}
						}
					case "recvs_on":
						switch x := in.(type) {
						case *ssa.UnOp:
							if x.Op == token.ARROW {
								if f, ok := fieldOf(x.X); ok && f == target {
									hit = true
								}
							}
						case *ssa.Select:
							for _, s := range x.States {
								if s.Dir == types.RecvOnly {
									if f, ok := fieldOf(s.Chan); ok && f == target {
										hit = true
									}
								}
							}
						}
					case "callers":
						if ci, ok := in.(ssa.CallInstruction); ok {
							if callee := ci.Common().StaticCallee(); callee != nil && callee.Pkg != nil {
								if (fnKeyOf(callee) == target && callee.Pkg.Pkg.Name() == pkgName) || callee.Pkg.Pkg.Name()+"."+fnKeyOf(callee) == target {
									hit = true
								}
							}
						}
						// the function used as a value (method expression, closure) also counts
						for _, op := range in.Operands(nil) {
							if f, ok := (*op).(*ssa.Function); ok && f.Pkg != nil && fnKeyOf(f) == target {
								if ci, isCall := in.(ssa.CallInstruction); !isCall || ci.Common().Value != *op {
									hit = true
								}
							}
						}
					case "format_args_exclude":
						// no logging.* / fmt.* formatting call receives a value
						// whose type can reach the named struct type
						if ci, ok := in.(ssa.CallInstruction); ok {
							callee := ci.Common().StaticCallee()
							if callee != nil && callee.Pkg != nil && (strings.HasSuffix(callee.Pkg.Pkg.Path(), "goirc/logging") || callee.Pkg.Pkg.Path() == "fmt") {
								for _, a := range formatArgs(ci.Common()) {
									if typeReaches(a.Type(), target, 0, map[string]bool{}) {
										hit = true
									}
								}
							}
						}
					default:
						bad = append(bad, "unknown closure kind "+kind)
					}
					if hit {
						res.Sites++
						if !allowed[key] {
							bad = append(bad, fmt.Sprintf("%s at %s", key, V.fset.Position(in.Pos())))
						}
					}
				}
			}
		}
		if res.Sites == 0 && len(bad) == 0 && kind != "format_args_exclude" {
			bad = append(bad, "no site found at all (vacuous closure clause)")
		}
		if len(bad) > 0 {
			res.OK = false
			sort.Strings(bad)
			res.Detail = strings.Join(bad, "; ")
		}
		out = append(out, res)
	}
	return out
}

// formatArgs: the values handed to a variadic formatting call (unwrapping the
// []interface{} literal go/ssa builds for the variadic part).
func formatArgs(c *ssa.CallCommon) []ssa.Value {
	var out []ssa.Value
	for _, a := range c.Args {
		if sl, ok := a.(*ssa.Slice); ok {
			if alloc, ok := sl.X.(*ssa.Alloc); ok {
				for _, r := range *alloc.Referrers() {
					if ia, ok := r.(*ssa.IndexAddr); ok {
						for _, r2 := range *ia.Referrers() {
							if st, ok := r2.(*ssa.Store); ok && st.Addr == ia {
								if mi, ok := st.Val.(*ssa.MakeInterface); ok {
									out = append(out, mi.X)
								} else {
									out = append(out, st.Val)
								}
							}
						}
					}
				}
				continue
			}
		}
		out = append(out, a)
	}
	return out
}

// typeReaches: can a value of type t lead (through pointers, fields, elements) to the named struct?
func typeReaches(t types.Type, name string, depth int, seen map[string]bool) bool {
	if depth > 6 {
		return false
	}
	key := t.String()
	if seen[key] {
		return false
	}
	seen[key] = true
	if n, ok := t.(*types.Named); ok && n.Obj().Name() == name {
		return true
	}
	switch u := t.Underlying().(type) {
	case *types.Pointer:
		return typeReaches(u.Elem(), name, depth+1, seen)
	case *types.Slice:
		return typeReaches(u.Elem(), name, depth+1, seen)
	case *types.Array:
		return typeReaches(u.Elem(), name, depth+1, seen)
	case *types.Map:
		return typeReaches(u.Key(), name, depth+1, seen) || typeReaches(u.Elem(), name, depth+1, seen)
	case *types.Struct:
		for i := 0; i < u.NumFields(); i++ {
			if typeReaches(u.Field(i).Type(), name, depth+1, seen) {
				return true
			}
		}
	}
	return false
}

// constArgsClosure: "const_args pkg.Func in F = "a" "b" ..." - the (single)
// call of pkg.Func in function F of the package passes exactly these string
// constants, taken as unordered (old, new) pairs: a table such as the
// message-tag escape table is what the code says it is.
func (V *Verifier) constArgsClosure(tags []string, text, file string) closureResult {
	res := closureResult{Name: "closure/const_args", Tags: tags, Text: text}
	eq := strings.Index(text, " = ")
	fs := strings.Fields(text)
	if eq < 0 || len(fs) < 4 || fs[2] != "in" {
		res.Detail = "malformed const_args clause"
		return res
	}
	target, fname := fs[1], fs[3]
	res.Name = "closure/const_args:" + target
	var want []string
	rest := strings.TrimSpace(text[eq+3:])
	for rest != "" {
		if rest[0] != '"' {
			res.Detail = "malformed constant list"
			return res
		}
		j := 1
		for j < len(rest) && rest[j] != '"' {
			if rest[j] == '\\' {
				j++
			}
			j++
		}
		if j >= len(rest) {
			res.Detail = "unterminated string constant"
			return res
		}
		v, err := strconv.Unquote(rest[:j+1])
		if err != nil {
			res.Detail = "bad string constant " + rest[:j+1]
			return res
		}
		want = append(want, v)
		rest = strings.TrimSpace(rest[j+1:])
	}
	pkgName := "client"
	if strings.Contains(file, "/state/") {
		pkgName = "state"
	}
	pkg := V.pkgs[pkgName]
	var fn *ssa.Function
	if pkg != nil {
		fn = pkg.Func(fname)
	}
	if fn == nil {
		res.Detail = "no function " + fname
		return res
	}
	var got []string
	found := false
	for _, b := range fn.Blocks {
		for _, in := range b.Instrs {
			ci, ok := in.(ssa.CallInstruction)
			if !ok {
				continue
			}
			callee := ci.Common().StaticCallee()
			if callee == nil || callee.Pkg == nil || callee.Pkg.Pkg.Name()+"."+fnKeyOf(callee) != target {
				continue
			}
			if found {
				res.Detail = "more than one call of " + target
				return res
			}
			found = true
			res.Sites++
			// constants stored into the variadic array, in index order
			vals := map[int64]string{}
			okAll := true
			for _, a := range ci.Common().Args {
				sl, ok := a.(*ssa.Slice)
				if !ok {
					okAll = false
					continue
				}
				alloc, ok := sl.X.(*ssa.Alloc)
				if !ok {
					okAll = false
					continue
				}
				for _, r := range *alloc.Referrers() {
					ia, ok := r.(*ssa.IndexAddr)
					if !ok {
						continue
					}
					idx, ok := ia.Index.(*ssa.Const)
					if !ok {
						okAll = false
						continue
					}
					for _, r2 := range *ia.Referrers() {
						if st, ok := r2.(*ssa.Store); ok && st.Addr == ia {
							if c, ok := st.Val.(*ssa.Const); ok && c.Value != nil && c.Value.Kind() == constant.String {
								vals[idx.Int64()] = constant.StringVal(c.Value)
							} else {
								okAll = false
							}
						}
					}
				}
			}
			if !okAll {
				res.Detail = "arguments are not all string constants"
				return res
			}
			for i := int64(0); i < int64(len(vals)); i++ {
				got = append(got, vals[i])
			}
		}
	}
	if !found {
		res.Detail = "no call of " + target + " in " + fname
		return res
	}
	pairs := func(xs []string) []string {
		var ps []string
		for i := 0; i+1 < len(xs); i += 2 {
			ps = append(ps, strconv.Quote(xs[i])+"->"+strconv.Quote(xs[i+1]))
		}
		if len(xs)%2 == 1 {
			ps = append(ps, "odd:"+strconv.Quote(xs[len(xs)-1]))
		}
		sort.Strings(ps)
		return ps
	}
	g, w := pairs(got), pairs(want)
	if strings.Join(g, " ") != strings.Join(w, " ") {
		res.Detail = fmt.Sprintf("table is %v, expected %v", g, w)
		return res
	}
	res.OK = true
	return res
}
