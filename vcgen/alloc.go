package main

// Static may-allocate analysis for dynamic type tags ($typeof). A callee (or
// a loop body) can only give a freshly allocated reference the tag of a
// struct type it allocates itself, directly or through the functions it
// calls. The set is computed over the SSA call graph; a dynamic call (through
// an interface or a function value) without a trusted contract makes the set
// unknown, in which case nothing is assumed about the tags of new objects.
// Code outside goirc (no SSA body, or specified by a trusted stdlib contract)
// cannot allocate goirc's struct types.

import (
	"go/types"
	"sort"
	"strings"

	"golang.org/x/tools/go/ssa"
)

type allocSet struct {
	tags    map[int]bool
	unknown bool
}

func (V *Verifier) staticKey(fn *ssa.Function) string {
	if fn.Pkg != nil {
		return fn.Pkg.Pkg.Name() + "." + fnKeyOf(fn)
	}
	if fn.Parent() != nil && fn.Parent().Pkg != nil {
		return fn.Parent().Pkg.Pkg.Name() + "." + fnKeyOf(fn)
	}
	return "synthetic." + fn.String()
}

func (V *Verifier) allocInstr(in ssa.Instruction, out *allocSet, visit func(*ssa.Function)) {
	common := func(c *ssa.CallCommon) {
		if c.IsInvoke() {
			recvT := c.Value.Type()
			if n, ok := recvT.(*types.Named); ok && n.Obj().Pkg() != nil && !V.isOurPkg(n.Obj().Pkg()) {
				return // stdlib interface: implementations outside goirc
			}
			key := "?"
			if n, ok := recvT.(*types.Named); ok && n.Obj().Pkg() != nil {
				key = n.Obj().Pkg().Name() + ".(" + n.Obj().Name() + ")." + c.Method.Name()
			}
			if sp := V.db.Funcs[key]; sp != nil && sp.Trusted {
				return
			}
			out.unknown = true
			return
		}
		if fn := c.StaticCallee(); fn != nil {
			if sp := V.db.Funcs[V.staticKey(fn)]; sp != nil && sp.Trusted {
				return
			}
			if len(fn.Blocks) == 0 {
				return
			}
			if fn.Pkg != nil && strings.HasSuffix(fn.Pkg.Pkg.Path(), "goirc/logging") {
				return // modelled as a log event; the logger is outside goirc
			}
			visit(fn)
			return
		}
		if _, ok := c.Value.(*ssa.Builtin); ok {
			return
		}
		out.unknown = true
	}
	switch x := in.(type) {
	case *ssa.Alloc:
		t := x.Type().(*types.Pointer).Elem()
		if isStructVal(t) {
			out.tags[V.nameID("type:"+structName(t))] = true
		}
	case *ssa.MakeClosure:
		if fn, ok := x.Fn.(*ssa.Function); ok {
			visit(fn)
		}
	case *ssa.Call:
		common(&x.Call)
	case *ssa.Go:
		common(&x.Call)
	case *ssa.Defer:
		common(&x.Call)
	}
}

// mayAlloc: struct type tags that running fn may give to new objects.
func (V *Verifier) mayAlloc(fn *ssa.Function) *allocSet {
	V.allocMu.Lock()
	defer V.allocMu.Unlock()
	if V.allocMemo == nil {
		V.allocMemo = map[*ssa.Function]*allocSet{}
	}
	if r, ok := V.allocMemo[fn]; ok {
		return r
	}
	out := &allocSet{tags: map[int]bool{}}
	seen := map[*ssa.Function]bool{}
	var visit func(f *ssa.Function)
	visit = func(f *ssa.Function) {
		if seen[f] {
			return
		}
		seen[f] = true
		for _, b := range f.Blocks {
			for _, in := range b.Instrs {
				V.allocInstr(in, out, visit)
			}
		}
	}
	visit(fn)
	V.allocMemo[fn] = out
	return out
}

// mayAllocBlocks: the same for a set of blocks (a loop body).
func (V *Verifier) mayAllocBlocks(blocks map[*ssa.BasicBlock]bool) *allocSet {
	out := &allocSet{tags: map[int]bool{}}
	for b := range blocks {
		for _, in := range b.Instrs {
			V.allocInstr(in, out, func(f *ssa.Function) {
				r := V.mayAlloc(f)
				for k := range r.tags {
					out.tags[k] = true
				}
				if r.unknown {
					out.unknown = true
				}
			})
		}
	}
	return out
}

// tagIn: tag is 0 or one of the set's tags.
func (a *allocSet) tagIn(tag *Term) *Term {
	var ks []int
	for k := range a.tags {
		ks = append(ks, k)
	}
	sort.Ints(ks)
	ds := []*Term{Eq(tag, IntLit(0))}
	for _, k := range ks {
		ds = append(ds, Eq(tag, IntLit(int64(k))))
	}
	return Or(ds...)
}
