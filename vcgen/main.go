package main

import (
	"runtime/debug"
	"sync/atomic"
	"runtime/pprof"
	"encoding/json"
	"flag"
	"fmt"
	"os"
	"path/filepath"
	"sort"
	"strings"
	"sync"
	"time"
)

var outRoot string

type oblResult struct {
	O        *Obligation
	Status   string // discharged, failed, unknown, unsupported, cover-ok, cover-vacuous
	Backend  string
	Ms       int64
	MaxMs    int64
	Detail   string
	Subgoals int
	Model    string
	FailedSG int
	Query    string
	SG       *subgoal
}

type job struct {
	res    *oblResult
	query  string
	light  string
	light2 string
	tiny   string
	fullnt string
	sgIdx  int
	sg     subgoal
	alts   []job // alternative way to discharge this subgoal (all must be unsat)
	ex     *Exec
	lazy   bool
	mu     sync.Mutex
}


// render builds one of the three query variants of a lazy job.
var buildNs int64
var statTinyN, statTinyNs, statLightN, statLightNs, statLight2N, statLight2Ns, statFullN, statFullNs int64

func (j *job) render(kind string) string {
	j.mu.Lock()
	t0 := time.Now()
	defer func() { atomic.AddInt64(&buildNs, int64(time.Since(t0))); j.mu.Unlock() }()
	switch kind {
	case "tiny":
		if j.tiny == "" {
			j.tiny = j.ex.buildQueryMode(j.res.O, j.sg, "", nil, true, false, true)
		}
		return j.tiny
	case "light":
		if j.light == "" {
			j.light = j.ex.buildQueryMode(j.res.O, j.sg, "", nil, true)
		}
		return j.light
	case "light2":
		if j.light2 == "" {
			j.light2 = j.ex.buildQueryMode(j.res.O, j.sg, "", nil, true, true)
			if j.light2 == j.light {
				j.light2 = "-"
			}
		}
		if j.light2 == "-" {
			return ""
		}
		return j.light2
	case "fullnt":
		if j.fullnt == "" {
			j.fullnt = j.ex.buildQueryMode(j.res.O, j.sg, "", nil, false, false, false, true)
			if j.fullnt == "" {
				j.fullnt = "-"
			}
		}
		if j.fullnt == "-" {
			return ""
		}
		return j.fullnt
	default:
		if j.query == "" {
			j.query = j.ex.buildQuery(j.res.O, j.sg, "", nil)
		}
		return j.query
	}
}

func hasTag(tags []string, p string) bool {
	for _, t := range tags {
		if t == p {
			return true
		}
	}
	return false
}

func main() {
	repo := flag.String("repo", "/repo", "repository root")
	verif := flag.String("verif", "/verif", "verif root")
	prop := flag.String("prop", "", "property id (or 'all')")
	tier := flag.String("tier", "quick", "quick|thorough")
	only := flag.String("func", "", "only this function key (pkg.Key)")
	dump := flag.String("dump", "", "directory to dump queries into")
	list := flag.Bool("list", false, "list obligations and exit")
	verbose := flag.Bool("v", false, "verbose")
	timeout := flag.Int("timeout", 0, "solver timeout seconds (default 10 quick / 60 thorough)")
	outdir := flag.String("outdir", "", "where evidence/ and replays/ are written (default: the verif root)")
	auditFlag := flag.Bool("audit", false, "audit the trusted strings contracts against the real library (random conformance)")
	flag.Parse()
	if *auditFlag {
		initScratch()
		code := runAudit(*verif)
		cleanupScratch()
		os.Exit(code)
	}
	debug.SetGCPercent(150)
	if pf := os.Getenv("VERIF_PROF"); pf != "" {
		if f, err := os.Create(pf); err == nil {
			pprof.StartCPUProfile(f)
			defer pprof.StopCPUProfile()
		}
	}
	outRoot = *outdir
	if outRoot == "" {
		outRoot = *verif
	}
	start := time.Now()
	initScratch()
	code := run(*repo, *verif, *prop, *tier, *only, *dump, *list, *verbose, *timeout, start)
	cleanupScratch()
	pprof.StopCPUProfile()
	os.Exit(code)
}

func run(repo, verif, prop, tier, only, dump string, list, verbose bool, timeout int, start time.Time) int {
	if timeout == 0 {
		timeout = 20
		if tier == "thorough" {
			timeout = 60
		}
	}
	specFiles, _ := filepath.Glob(filepath.Join(verif, "contracts", "stdlib", "*.spec"))
	sort.Strings(specFiles)
	V, err := LoadVerifier(repo, specFiles)
	if err != nil {
		fmt.Fprintf(os.Stderr, "load: %v\n", err)
		return reportEngineFailure(verif, prop, tier, start, "load: "+err.Error())
	}
	V.prop = prop
	// select functions
	var keys []string
	for _, k := range V.db.Order {
		fs := V.db.Funcs[k]
		if fs.Trusted {
			continue
		}
		if only != "" && k != only {
			continue
		}
		if prop != "all" && prop != "" && !specMentions(fs, prop) {
			continue
		}
		keys = append(keys, k)
	}
	var results []*oblResult
	var jobs []job
	var execs []*Exec
	engineErrors := []string{}
	for _, k := range keys {
		fs := V.db.Funcs[k]
		fn := V.allFns[k]
		if fn == nil {
			engineErrors = append(engineErrors, fmt.Sprintf("contract for %s: no such function in the working tree", k))
			continue
		}
		ex, err := V.Verify(fn, fs)
		if err != nil {
			engineErrors = append(engineErrors, err.Error())
			continue
		}
		execs = append(execs, ex)
		if len(ex.noInvLoops) > 0 && verbose {
			fmt.Fprintf(os.Stderr, "note: %s has loops without invariants: %v\n", k, ex.noInvLoops)
		}
		for _, o := range ex.obls {
			if prop != "all" && prop != "" && !hasTag(o.Tags, prop) {
				continue
			}
			r := &oblResult{O: o}
			results = append(results, r)
			if o.Unsupp != "" {
				r.Status = "unsupported"
				r.Detail = o.Unsupp
				if r.Detail == "" {
					r.Detail = ex.poisoned
				}
				continue
			}
			if o.IsCover {
				q := ex.buildQuery(o, subgoal{hyps: nil, goal: False}, "", nil)
				jobs = append(jobs, job{res: r, query: q, sg: subgoal{hyps: nil, goal: False}})
				r.Subgoals = 1
				continue
			}
			var sgs []subgoal
			ex.knownHyps = ex.knownConjuncts(o)
			ex.knownPath = o.Path
			ex.splitGoal(o.Goal, nil, &sgs)
			ex.knownHyps = nil
			r.Subgoals = len(sgs)
			if len(sgs) == 0 {
				r.Status = "discharged"
				r.Backend = "simplifier"
				continue
			}
			for i, sg := range sgs {
				// queries are rendered lazily (under the function's lock): most
				// subgoals are settled by the first, instance-only query
				j := job{res: r, sgIdx: i, sg: sg, ex: ex, lazy: true}
				for _, asg := range ex.altGoals(sg) {
					j.alts = append(j.alts, job{res: r, sgIdx: i, sg: asg, ex: ex, lazy: true})
				}
				if sg.fallback != nil {
					// guard not provable: prove the formula itself
					var fsgs []subgoal
					ex.noGuardShortcut = true
					ex.knownHyps = ex.knownConjuncts(o)
					ex.knownPath = o.Path
					ex.splitGoal(sg.fallback, sg.hyps, &fsgs)
					ex.knownHyps = nil
					ex.noGuardShortcut = false
					for _, fsg := range fsgs {
						j.alts = append(j.alts, job{res: r, sgIdx: i, sg: fsg, ex: ex, lazy: true})
					}
					if len(fsgs) == 0 {
						j.alts = nil
						continue // formula already discharged by the splitter
					}
				}
				jobs = append(jobs, j)
			}
		}
	}
	// closure obligations (whole-package SSA scans)
	for _, cr := range V.runClosures(prop) {
		o := &Obligation{Name: cr.Name, Tags: cr.Tags, Func: "(package)", Kind: "closure", Text: cr.Text, Goal: True, Path: True}
		r := &oblResult{O: o, Subgoals: 1}
		if cr.OK {
			r.Status = "discharged"
			r.Backend = "ssa-scan"
			r.Detail = fmt.Sprintf("%d sites, all inside the listed functions", cr.Sites)
		} else {
			r.Status = "failed"
			r.Detail = cr.Detail
		}
		results = append(results, r)
	}
	if list {
		for _, r := range results {
			fmt.Printf("%s  (%d subgoals) %s\n", r.O.String(), r.Subgoals, r.Status)
		}
		for _, e := range engineErrors {
			fmt.Println("ENGINE ERROR:", e)
		}
		return 0
	}
	if dump != "" {
		os.MkdirAll(dump, 0o755)
		for ji := range jobs {
			j := &jobs[ji]
			if flt := os.Getenv("VERIF_DUMPFILTER"); flt != "" && !strings.Contains(fmt.Sprintf("%s.%d.", sanitize(j.res.O.Name), j.sgIdx), flt) {
				continue
			}
			if j.lazy {
				j.render("light")
				j.render("light2")
				j.render("full")
			}
			name := sanitize(j.res.O.Name) + fmt.Sprintf(".%d.smt2", j.sgIdx)
			os.WriteFile(filepath.Join(dump, name), []byte(j.query), 0o644)
			if j.light != "" {
				os.WriteFile(filepath.Join(dump, strings.TrimSuffix(name, ".smt2")+".light.smt2"), []byte(j.light), 0o644)
			}
			if j.light2 != "" && j.light2 != "-" {
				os.WriteFile(filepath.Join(dump, strings.TrimSuffix(name, ".smt2")+".light2.smt2"), []byte(j.light2), 0o644)
			}
		}
	}
	if dump != "" && os.Getenv("VERIF_DUMPONLY") != "" {
		return 0
	}
	// solve in parallel
	var mu sync.Mutex
	var wg sync.WaitGroup
	sem := make(chan struct{}, 7) // each job races 2-3 solvers
	var solverMs int64
	for i := range jobs {
		j := &jobs[i]
		wg.Add(1)
		sem <- struct{}{}
		go func() {
			defer wg.Done()
			defer func() { <-sem }()
			to := timeout
			if j.res.O.IsCover {
				to = 3
			}
			var sr SolverResult
			if j.lazy {
				t0 := time.Now()
				sr = SolveN(j.render("tiny"), 4, false, 1)
				j.tiny = ""
				atomic.AddInt64(&statTinyN, 1)
				atomic.AddInt64(&statTinyNs, int64(time.Since(t0)))
				if sr.Status == "unsat" {
					sr.Solver += "(inst0)"
				}
				if sr.Status != "unsat" {
					t2 := time.Now()
					l2 := j.render("light2")
					tag := "(inst2)"
					if l2 == "" {
						l2 = j.render("light")
						tag = "(inst)"
					}
					sr = SolveN(l2, 60, false, 2)
					atomic.AddInt64(&statLight2N, 1)
					atomic.AddInt64(&statLight2Ns, int64(time.Since(t2)))
					if sr.Status == "unsat" {
						sr.Solver += tag
					}
				}
				if sr.Status != "unsat" && !j.res.O.IsCover {
					// the quantified query without the type-tag hypotheses (sound: fewer hypotheses)
					if nt := j.render("fullnt"); nt != "" {
						tnt := to
						if tnt > 10 {
							tnt = 10
						}
						r := Solve(nt, tnt, false)
						j.fullnt = "-"
						if r.Status == "unsat" {
							sr = r
							sr.Solver += "(nt)"
						}
					}
				}
				if sr.Status != "unsat" {
					j.query = j.render("full")
				}
			}
			if sr.Status != "unsat" {
				t3 := time.Now()
				sr = Solve(j.query, to, tier == "thorough" && !j.res.O.IsCover)
				if os.Getenv("VERIF_STAGES") != "" && !j.res.O.IsCover {
					fmt.Fprintf(os.Stderr, "STAGE full %s subgoal %d %s %dms\n", j.res.O.Name, j.sgIdx, sr.Status, time.Since(t3).Milliseconds())
				}
				atomic.AddInt64(&statFullN, 1)
				atomic.AddInt64(&statFullNs, int64(time.Since(t3)))
			}
			if sr.Status != "unsat" && len(j.alts) > 0 {
				// prove the content equality from its definition instead
				allOK := true
				var last SolverResult
				for ai := range j.alts {
					a := &j.alts[ai]
					ta := time.Now()
					aq := a.render("light2")
					if aq == "" {
						aq = a.render("light")
					}
					ar := SolveN(aq, 40, false, 2)
					stage := "light"
					if ar.Status != "unsat" {
						ar = Solve(a.render("full"), to, false)
						stage = "full"
					}
					if os.Getenv("VERIF_STAGES") != "" {
						fmt.Fprintf(os.Stderr, "STAGE alt%d %s %s subgoal %d %s %dms\n", ai, stage, j.res.O.Name, j.sgIdx, ar.Status, time.Since(ta).Milliseconds())
					}
					last = ar
					if ar.Status != "unsat" {
						allOK = false
						break
					}
				}
				if allOK {
					sr = last
					sr.Solver += "(alt)"
				} else if last.Status == "sat" {
					sr = last
				}
			}
			// the rendered queries of a finished job are not needed again
			if dump == "" {
				j.tiny, j.light, j.light2, j.query = "", "", "", ""
				for ai := range j.alts {
					a := &j.alts[ai]
					a.tiny, a.light, a.light2, a.query = "", "", "", ""
				}
			}
			mu.Lock()
			defer mu.Unlock()
			solverMs += sr.Ms
			r := j.res
			if r.O.IsCover {
				if sr.Status == "unsat" {
					r.Status = "cover-vacuous"
					r.Backend = sr.Solver
				} else if r.Status == "" {
					r.Status = "cover-ok"
					r.Backend = sr.Solver
				}
				return
			}
			switch sr.Status {
			case "unsat":
				if r.Status == "" {
					r.Status = "discharged"
				}
				if r.Backend == "" || !strings.Contains(r.Backend, sr.Solver) {
					if r.Backend != "" {
						r.Backend += "+"
					}
					r.Backend += sr.Solver
				}
				r.Ms += sr.Ms
				if sr.Ms > r.MaxMs {
					r.MaxMs = sr.Ms
				}
			case "sat":
				r.Status = "failed"
				r.Model = sr.Output
				r.Detail = fmt.Sprintf("subgoal %d refuted by %s", j.sgIdx, sr.Solver)
				r.FailedSG = j.sgIdx
				r.Query = j.query
				sgc := j.sg
				r.SG = &sgc
			default:
				if r.Status != "failed" {
					r.Status = "unknown"
					r.Detail = fmt.Sprintf("subgoal %d: %s (%s)", j.sgIdx, sr.Status, strings.ReplaceAll(strings.TrimSpace(sr.Output), "\n", "; "))
					r.FailedSG = j.sgIdx
					r.Query = j.query
					sgc := j.sg
					r.SG = &sgc
				}
			}
		}()
	}
	wg.Wait()
	return report(V, verif, repo, prop, tier, start, results, execs, engineErrors, solverMs, verbose, keys)
}

func specMentions(fs *FuncSpec, prop string) bool {
	if hasTag(fs.Props, prop) || hasTag(fs.Safety, prop) {
		return true
	}
	for _, c := range fs.Clauses {
		if hasTag(c.Tags, prop) {
			return true
		}
	}
	for _, l := range fs.Loops {
		for _, c := range l.Clauses {
			if hasTag(c.Tags, prop) {
				return true
			}
		}
	}
	for _, v := range fs.Attrs {
		for _, t := range strings.Split(v, "+") {
			if t == prop {
				return true
			}
		}
	}
	return false
}

func (ex *Exec) inputTerms() []*Term { return nil }

type evidence struct {
	PropertyID  string                 `json:"property_id"`
	Tier        string                 `json:"tier"`
	Seed        int                    `json:"seed"`
	Level       string                 `json:"level"`
	Coverage    map[string]interface{} `json:"coverage"`
	Assumptions []string               `json:"assumptions"`
	WallS       float64                `json:"wall_s"`
	Violations  int                    `json:"violations"`
}

func reportEngineFailure(verif, prop, tier string, start time.Time, msg string) int {
	fmt.Printf("ENGINE-FAILURE property=%s %s\n", prop, msg)
	replay := filepath.Join(outRoot, "replays", prop, "engine_failure.txt")
	os.MkdirAll(filepath.Dir(replay), 0o755)
	os.WriteFile(replay, []byte("obligation: (none: the verifier could not process the working tree)\n"+msg+"\n"), 0o644)
	fmt.Printf("VIOLATION property=%s replay=%s no-failing-input-found\n", prop, replay)
	return 1
}

func report(V *Verifier, verif, repo, prop, tier string, start time.Time, results []*oblResult, execs []*Exec, engineErrors []string, solverMs int64, verbose bool, keys []string) int {
	os.RemoveAll(filepath.Join(outRoot, "replays", prop))
	known := loadKnownFindings(filepath.Join(verif, "known_findings.txt"))
	nObl, nDis, nCover, nCoverOK := 0, 0, 0, 0
	violations := 0
	samples := []interface{}{}
	perObl := []map[string]interface{}{}
	backends := map[string]int{}
	coverByFn := map[string][]*oblResult{}
	sort.SliceStable(results, func(i, j int) bool { return results[i].O.Name < results[j].O.Name })
	for _, r := range results {
		entry := map[string]interface{}{"name": r.O.Name, "kind": r.O.Kind, "pos": r.O.Pos, "result": r.Status, "backend": r.Backend, "ms": r.Ms, "max_subgoal_ms": r.MaxMs, "subgoals": r.Subgoals}
		if r.O.IsCover {
			// a return that is unreachable under the precondition is dead
			// (defensive) code; a function none of whose returns is reachable
			// has a contradictory contract (checked after the loop)
			nCover++
			coverByFn[r.O.Func] = append(coverByFn[r.O.Func], r)
			if r.Status == "cover-ok" {
				nCoverOK++
			}
			perObl = append(perObl, entry)
			continue
		}
		nObl++
		if r.Status == "discharged" {
			nDis++
			backends[r.Backend]++
			if len(samples) < 4 && r.Backend != "simplifier" {
				samples = append(samples, map[string]string{"obligation": r.O.Name, "clause": r.O.Text, "goal": truncate(r.O.Goal.String(), 400), "backend": r.Backend})
			}
		} else {
			if kf, ok := known.match(prop, r.O.Name); ok {
				fmt.Printf("KNOWN-FINDING: property=%s %s\n", prop, kf)
				entry["known_finding"] = kf
			} else {
				violations++
				path, confirmed := replayOrRecord(V, verif, repo, prop, r)
				suffix := ""
				if !confirmed {
					suffix = " no-failing-input-found"
				}
				fmt.Printf("VIOLATION property=%s replay=%s%s\n", prop, path, suffix)
				fmt.Printf("  obligation %s: %s (%s) %s\n", r.O.Name, r.Status, r.O.Pos, truncate(r.Detail, 300))
			}
		}
		if r.Detail != "" {
			entry["detail"] = truncate(r.Detail, 300)
		}
		perObl = append(perObl, entry)
		if verbose {
			fmt.Fprintf(os.Stderr, "%-12s %-60s %s %dms %s\n", r.Status, r.O.Name, r.Backend, r.Ms, truncate(r.Detail, 200))
		}
	}
	for fnName, cs := range coverByFn {
		anyOK := false
		for _, c := range cs {
			if c.Status == "cover-ok" {
				anyOK = true
			}
		}
		if !anyOK {
			violations++
			path := writeReplay(verif, prop, cs[0], "vacuous: no return of "+fnName+" is reachable under its precondition (contradictory contract)")
			fmt.Printf("VIOLATION property=%s replay=%s no-failing-input-found\n", prop, path)
		}
	}
	for _, e := range engineErrors {
		violations++
		path := filepath.Join(outRoot, "replays", prop, "engine_error.txt")
		os.MkdirAll(filepath.Dir(path), 0o755)
		os.WriteFile(path, []byte("obligation: contract well-formedness (closure)\n"+e+"\n"), 0o644)
		fmt.Printf("VIOLATION property=%s replay=%s no-failing-input-found\n", prop, path)
		fmt.Printf("  %s\n", e)
	}
	if nObl == 0 && len(engineErrors) == 0 {
		violations++
		fmt.Printf("VIOLATION property=%s replay=%s no-failing-input-found\n", prop, filepath.Join(outRoot, "replays", prop, "no_obligations.txt"))
		os.MkdirAll(filepath.Join(outRoot, "replays", prop), 0o755)
		os.WriteFile(filepath.Join(outRoot, "replays", prop, "no_obligations.txt"), []byte("obligation: (vacuity) the check generated zero obligations\n"), 0o644)
	}
	// evidence
	usedSpecs := map[string]bool{}
	usedAx := map[string]bool{}
	fuc := []string{}
	noInv := []string{}
	for _, ex := range execs {
		fuc = append(fuc, ex.fnKey())
		for k := range ex.usedSpecs {
			usedSpecs[k] = true
		}
		for k := range ex.usedAx {
			usedAx[k] = true
		}
		for _, l := range ex.noInvLoops {
			noInv = append(noInv, fmt.Sprintf("%s loop %d", ex.fnKey(), l))
		}
	}
	trusted, assumptions := []string{}, []string{}
	for _, k := range sortedKeys(usedSpecs) {
		if fs := V.db.Funcs[k]; fs != nil && fs.Trusted {
			trusted = append(trusted, "trusted contract: "+k)
		} else if fs != nil {
			assumptions = append(assumptions, "callee contract used (proved under its own property): "+k)
		}
	}
	for _, k := range sortedKeys(usedAx) {
		for _, a := range V.db.Axioms {
			if a.Name == k {
				if a.IsLemma {
					assumptions = append(assumptions, "lemma used (proved separately): "+k)
				} else {
					trusted = append(trusted, "axiom: "+k)
				}
			}
		}
	}
	trusted = append(trusted, "solvers z3 4.8.12 / z3 5.1.0 / cvc5 1.0.3", "go/ssa (x/tools v0.29.0) translation of the working tree", "goircvc VC generator (this repository, /verif/vcgen)",
		"integers are mathematical; int64 overflow is an obligation only in functions marked 'arith checked'", "sequential semantics: no goroutine interleaving is explored")
	lvl := levelOf(verif, prop)
	cov := map[string]interface{}{
		"obligations": nObl, "discharged": nDis, "checker_cmd": fmt.Sprintf("bin/check %s %s", prop, tier),
		"trusted_base": trusted, "samples": samples, "functions_under_contract": fuc, "per_obligation": perObl,
		"backends": backends, "solver_time_s": float64(solverMs) / 1000.0, "cover_checks": nCover, "cover_ok": nCoverOK,
		"loops_without_invariant": noInv,
		"explanation":             fmt.Sprintf("%d proof obligations generated from the SSA of %d functions of the working tree; %d discharged (unsat) by an SMT solver; %d vacuity covers checked", nObl, len(fuc), nDis, nCover),
	}
	ev := evidence{PropertyID: prop, Tier: tier, Seed: seedEnv(), Level: lvl, Coverage: cov, Assumptions: assumptions, WallS: time.Since(start).Seconds(), Violations: violations}
	os.MkdirAll(filepath.Join(outRoot, "evidence"), 0o755)
	data, _ := json.MarshalIndent(ev, "", " ")
	os.WriteFile(filepath.Join(outRoot, "evidence", prop+".json"), data, 0o644)
	if os.Getenv("VERIF_PROFILE") != "" {
		fmt.Fprintf(os.Stderr, "profile: query rendering %.1fs (serialised), solver time %.1fs (summed)\n", float64(buildNs)/1e9, float64(solverMs)/1000)
		fmt.Fprintf(os.Stderr, "profile: %d goal conjuncts matched hypotheses literally\n", statKnownHits)
		fmt.Fprintf(os.Stderr, "profile: tiny %d runs %.1fs; light %d runs %.1fs; light2 %d runs %.1fs; full %d runs %.1fs\n", statTinyN, float64(statTinyNs)/1e9, statLightN, float64(statLightNs)/1e9, statLight2N, float64(statLight2Ns)/1e9, statFullN, float64(statFullNs)/1e9)
	}
	fmt.Printf("property=%s functions=%d obligations=%d discharged=%d covers=%d/%d violations=%d wall=%.1fs\n", prop, len(fuc), nObl, nDis, nCoverOK, nCover, violations, time.Since(start).Seconds())
	if violations > 0 {
		return 1
	}
	return 0
}

func seedEnv() int {
	var n int
	fmt.Sscanf(os.Getenv("VERIF_SEED"), "%d", &n)
	return n
}

func levelOf(verif, prop string) string {
	data, err := os.ReadFile(filepath.Join(verif, "MANIFEST.json"))
	if err != nil {
		return "proof"
	}
	var m struct {
		Checks []struct {
			PropertyID   string `json:"property_id"`
			LevelClaimed struct {
				Category string `json:"category"`
			} `json:"level_claimed"`
		} `json:"checks"`
	}
	if json.Unmarshal(data, &m) != nil {
		return "proof"
	}
	for _, c := range m.Checks {
		if c.PropertyID == prop && c.LevelClaimed.Category != "" {
			return c.LevelClaimed.Category
		}
	}
	return "proof"
}

// ---------------------------------------------------------------------------
// known findings

type knownFindings struct {
	entries []struct{ prop, obligation, text string }
}

func loadKnownFindings(path string) *knownFindings {
	kf := &knownFindings{}
	data, err := os.ReadFile(path)
	if err != nil {
		return kf
	}
	for _, l := range strings.Split(string(data), "\n") {
		l = strings.TrimSpace(l)
		if !strings.HasPrefix(l, "finding:") {
			continue
		}
		var prop, obl string
		for _, f := range strings.Fields(l) {
			if strings.HasPrefix(f, "property=") {
				prop = f[9:]
			}
			if strings.HasPrefix(f, "obligation=") {
				obl = f[11:]
			}
		}
		kf.entries = append(kf.entries, struct{ prop, obligation, text string }{prop, obl, strings.TrimSpace(l[8:])})
	}
	return kf
}

func (k *knownFindings) match(prop, obl string) (string, bool) {
	for _, e := range k.entries {
		if e.prop == prop && e.obligation == obl {
			return e.text, true
		}
	}
	return "", false
}

func writeReplay(verif, prop string, r *oblResult, note string) string {
	dir := filepath.Join(outRoot, "replays", prop)
	os.MkdirAll(dir, 0o755)
	path := filepath.Join(dir, sanitize(r.O.Name)+".txt")
	var sb strings.Builder
	fmt.Fprintf(&sb, "obligation: %s\nproperty: %s\nfunction: %s\nkind: %s\nposition: %s\nclause: %s\nstatus: %s\n%s\ndetail: %s\n", r.O.Name, prop, r.O.Func, r.O.Kind, r.O.Pos, r.O.Text, r.Status, note, r.Detail)
	if r.Model != "" {
		fmt.Fprintf(&sb, "\n--- solver output ---\n%s\n", truncate(r.Model, 20000))
	}
	if r.Query != "" {
		fmt.Fprintf(&sb, "\n--- failing query (subgoal %d) ---\n%s\n", r.FailedSG, truncate(r.Query, 200000))
	}
	os.WriteFile(path, []byte(sb.String()), 0o644)
	return path
}

func replayOrRecord(V *Verifier, verif, repo, prop string, r *oblResult) (string, bool) {
	return tryReplay(V, verif, repo, prop, r)
}
