package main

// Solver racing: every obligation is one SMT-LIB file sent to z3 4.8.12,
// z3 5.1.0 (z3-new) and cvc5 1.0.3 concurrently; the first definitive answer
// (sat / unsat) wins and the others are killed.

import (
	"bytes"
	"context"
	"fmt"
	"os"
	"os/exec"
	"path/filepath"
	"strings"
	"sync"
	"time"
)

type SolverResult struct {
	Status string // "unsat", "sat", "unknown", "timeout", "error"
	Solver string
	Ms     int64
	Output string // raw output of the deciding solver (model values on sat)
	All    map[string]string
}

type solverSpec struct {
	name string
	argv func(file string, timeoutS int) []string
	pre  string // text put before the query
}

var solvers = []solverSpec{
	{"z3-5.1.0", func(f string, t int) []string { return []string{"z3-new", fmt.Sprintf("-T:%d", t), f} }, ""},
	{"z3-4.8.12", func(f string, t int) []string { return []string{"z3", fmt.Sprintf("-T:%d", t), f} }, ""},
	{"cvc5-1.0.3", func(f string, t int) []string {
		return []string{"cvc5", "--lang=smt2", fmt.Sprintf("--tlimit=%d", t*1000), "--produce-models", f}
	}, "(set-logic ALL)\n"},
}

var scratchDir string

func initScratch() {
	base := os.Getenv("VERIF_SCRATCH")
	if base == "" {
		base = "/var/tmp"
	}
	d, err := os.MkdirTemp(base, "goircvc-")
	if err != nil {
		panic(err)
	}
	scratchDir = d
}

func cleanupScratch() {
	if scratchDir != "" {
		os.RemoveAll(scratchDir)
	}
}

var fileCounter struct {
	sync.Mutex
	n int
}

func firstLine(s string) string {
	s = strings.TrimSpace(s)
	if i := strings.IndexByte(s, '\n'); i >= 0 {
		return strings.TrimSpace(s[:i])
	}
	return s
}

// Solve runs query (without preamble-specific set-logic; check-sat and
// get-value lines already included) on all solvers. If wantAll is set, waits
// for every solver (cross-solver agreement in the thorough tier).
func Solve(query string, timeoutS int, wantAll bool) SolverResult {
	return SolveN(query, timeoutS, wantAll, len(solvers))
}

// SolveN races only the first n solvers (the instance-only attempts use the
// two z3 versions: cvc5 is several times slower on those large ground
// queries and only burns a core until it is killed).
func SolveN(query string, timeoutS int, wantAll bool, nsolv int) SolverResult {
	solvers := solvers[:nsolv]
	fileCounter.Lock()
	fileCounter.n++
	n := fileCounter.n
	fileCounter.Unlock()

	ctx, cancel := context.WithTimeout(context.Background(), time.Duration(timeoutS+3)*time.Second)
	defer cancel()

	type one struct {
		name, status, out string
		ms                int64
	}
	ch := make(chan one, len(solvers))
	for i, sv := range solvers {
		file := filepath.Join(scratchDir, fmt.Sprintf("q%d_%d.smt2", n, i))
		if err := os.WriteFile(file, []byte(sv.pre+query), 0o644); err != nil {
			panic(err)
		}
		go func(sv solverSpec, file string) {
			defer os.Remove(file)
			start := time.Now()
			argv := sv.argv(file, timeoutS)
			cmd := exec.CommandContext(ctx, argv[0], argv[1:]...)
			var out bytes.Buffer
			cmd.Stdout = &out
			cmd.Stderr = &out
			_ = cmd.Run()
			o := out.String()
			st := firstLine(o)
			switch {
			case st == "unsat" || st == "sat":
			case st == "unknown":
			case strings.Contains(st, "timeout") || ctx.Err() != nil:
				st = "timeout"
			default:
				if strings.Contains(o, "timeout") || strings.Contains(o, "interrupted") {
					st = "timeout"
				} else {
					st = "error"
				}
			}
			ch <- one{sv.name, st, o, time.Since(start).Milliseconds()}
		}(sv, file)
	}
	res := SolverResult{Status: "unknown", All: map[string]string{}}
	var decided *one
	got := 0
	for got < len(solvers) {
		o := <-ch
		got++
		res.All[o.name] = o.status
		if o.status == "error" {
			res.All[o.name] = "error: " + truncate(o.out, 300)
		}
		if o.status == "sat" || o.status == "unsat" {
			if decided == nil {
				oc := o
				decided = &oc
				if !wantAll {
					cancel()
					break
				}
			} else if decided.status != o.status {
				res.Status = "inconsistent"
				res.Output = fmt.Sprintf("%s says %s but %s says %s", decided.name, decided.status, o.name, o.status)
				return res
			}
		}
	}
	if decided != nil {
		res.Status = decided.status
		res.Solver = decided.name
		res.Ms = decided.ms
		res.Output = decided.out
		return res
	}
	// nobody decided: timeout if anyone timed out, else unknown / error
	res.Status = "unknown"
	for _, s := range res.All {
		if s == "timeout" {
			res.Status = "timeout"
		}
	}
	var sb strings.Builder
	for k, v := range res.All {
		fmt.Fprintf(&sb, "%s: %s\n", k, v)
	}
	res.Output = sb.String()
	return res
}

func truncate(s string, n int) string {
	if len(s) > n {
		return s[:n] + "..."
	}
	return s
}
