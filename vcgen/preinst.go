package main

// Sound pre-instantiation of quantified hypotheses. Strings are views, so the
// natural triggers of user-level quantifiers contain arithmetic
// (select (sarr s) (+ (soff s) j)) and E-matching rarely fires. The engine
// therefore adds, next to every quantified hypothesis, its instances at the
// ground integer terms that matter in the query (skolem constants, witnesses
// of existentials, values of integer spec functions). Instances are logical
// consequences, so this never weakens a proof obligation's meaning.

import "strings"

type preinst struct {
	matchMode bool                 // candidates come from trigger matching against the ground pool
	pool      map[string][]*Term   // array term -> ground index terms it is read at
	poolSeen  map[string]bool
	poolArr   map[string]*Term // array term by its string
	active    map[string]bool  // index terms derived from the goal (goal-directed pool growth)
	known map[string]*Term // asserted quantified facts (and their top-level conjuncts) -> the guard they hold under
	tiny bool
	focusSyms []*Term
	pairs     bool // also instantiate two-variable quantifiers (second attempt)
	pairsOnly bool
	hints     []*Term
	ints      []*Term
	strs      map[string][]*Term // sf.name -> ground Str arguments (by position 0..)
	apps      map[string][][]*Term
	out       []*Term
	limit     int
	seen      map[string]bool
}

func collectCandidates(all []*Term, focus []*Term) *preinst {
	p := &preinst{strs: map[string][]*Term{}, apps: map[string][][]*Term{}, limit: 2500, seen: map[string]bool{}}
	bound := map[string]bool{}
	for _, a := range all {
		a.Walk(func(x *Term) {
			for _, b := range x.Bound {
				bound[b.Name] = true
			}
		})
	}
	isGround := func(t *Term) bool {
		ok := true
		t.Walk(func(x *Term) {
			if len(x.Args) == 0 && !x.IsSym && bound[x.Op] {
				ok = false
			}
		})
		return ok
	}
	intSeen := map[string]bool{}
	addInt := func(t *Term) {
		k := t.String()
		if !intSeen[k] && len(p.ints) < 44 {
			intSeen[k] = true
			p.ints = append(p.ints, t)
		}
	}
	// integer constants of the focus (goal and local hypotheses) first, then
	// (two levels deep) the integer constants in the definitions of the
	// constants the focus mentions: index expressions hide there
	defs := map[string]*Term{}
	for _, a := range all[:len(all)-len(focus)] {
		if !a.IsSym && a.Op == "=" && len(a.Args) == 2 && a.Args[0].IsSym && len(a.Args[0].Args) == 0 {
			if _, ok := defs[a.Args[0].Op]; !ok {
				defs[a.Args[0].Op] = a.Args[1]
			}
		}
		// guarded definitions: (=> r (= c rhs))
		if !a.IsSym && a.Op == "=>" && !a.Args[1].IsSym && a.Args[1].Op == "=" && a.Args[1].Args[0].IsSym && len(a.Args[1].Args[0].Args) == 0 {
			if _, ok := defs[a.Args[1].Args[0].Op]; !ok {
				defs[a.Args[1].Args[0].Op] = a.Args[1].Args[1]
			}
		}
	}
	frontier := focus
	for level := 0; level < 3; level++ {
		var next []*Term
		for _, f := range frontier {
			f.Walk(func(x *Term) {
				if x.IsSym && len(x.Args) == 0 {
					if x.S == SInt {
						addInt(x)
					}
					if d, ok := defs[x.Op]; ok {
						next = append(next, d)
					}
				}
				// terms a skolem constant is compared with: (= sk.i (- n 1)) suggests n-1
				if level == 0 && !x.IsSym && len(x.Args) == 2 && (x.Op == "=" || x.Op == "<" || x.Op == "<=" || x.Op == ">" || x.Op == ">=") && x.Args[0].S == SInt {
					for side := 0; side < 2; side++ {
						a, b := x.Args[side], x.Args[1-side]
						if a.IsSym && len(a.Args) == 0 && strings.HasPrefix(a.Op, "sk.") && isGround(b) && b.Size() <= 14 {
							if _, isC := b.IntVal(); !isC {
								addInt(b)
							}
						}
					}
				}
				// bounds of element-set / join terms: sidsetf(row, off, off+n) suggests n and n-1
				if x.IsSym && (x.Op == "sidsetf" || x.Op == "joinspf") && isGround(x) {
					for _, b := range x.Args[1:3] {
						if !b.IsSym && b.Op == "+" && len(b.Args) == 2 {
							n := b.Args[1]
							if _, isC := n.IntVal(); !isC {
								addInt(n)
							}
							if !n.IsSym && n.Op == "+" && len(n.Args) == 2 {
								if c, isC := n.Args[1].IntVal(); isC && c == 1 {
									addInt(n.Args[0])
								}
							}
						}
					}
				}
				// index expressions of array reads: (select a (+ off i)) suggests i
				if !x.IsSym && x.Op == "select" && len(x.Args) == 2 && x.Args[1].S == SInt && isGround(x.Args[1]) {
					idx := x.Args[1]
					if !idx.IsSym && idx.Op == "+" && len(idx.Args) == 2 {
						// offset + index (strings, slices): the index; base + k
						// (traces): the whole sum
						if a0 := idx.Args[0]; !(a0.Op == "soff" || a0.Op == "sloff") || a0.IsSym {
							addInt(idx)
						}
						if _, isC := idx.Args[1].IntVal(); !isC {
							addInt(idx.Args[1])
						}
						if _, isC := idx.Args[0].IntVal(); !isC && (idx.Args[0].IsSym && len(idx.Args[0].Args) == 0) {
							addInt(idx.Args[0])
						}
					} else if _, isC := idx.IntVal(); !isC {
						addInt(idx)
					}
					// constant byte positions of the focus (x[0], x[4] ...)
					if level == 0 {
						if !idx.IsSym && idx.Op == "+" && len(idx.Args) == 2 {
							if n, isC := idx.Args[1].IntVal(); isC && n >= 0 && n < 24 {
								addInt(idx.Args[1])
							}
						} else if n, isC := idx.IntVal(); isC && n >= 0 && n < 24 {
							addInt(idx)
						}
					}
				}
			})
		}
		frontier = next
	}
	for _, a := range all {
		a.Walk(func(x *Term) {
			if !x.IsSym {
				return
			}
			if len(x.Args) == 0 && x.S == SInt && (strings.HasPrefix(x.Op, "ex.") || strings.HasPrefix(x.Op, "sk.")) {
				addInt(x)
			}
			// the witness of a non-empty set
			if x.Op == "card" && len(x.Args) == 1 && isGround(x) {
				addInt(bi("cardwit", SInt, x.Args[0]))
			}
			if len(x.Args) > 0 && strings.HasPrefix(x.Op, "sf.") && isGround(x) {
				p.apps[x.Op] = append(p.apps[x.Op], x.Args)
				if x.S == SInt {
					addInt(x)
				}
			}
		})
	}
	return p
}

func (p *preinst) emit(ctx []*Term, t *Term) {
	if len(p.out) >= p.limit {
		return
	}
	// quantified guards that are themselves asserted hypotheses are known to hold
	if len(ctx) > 0 && len(p.known) > 0 {
		var c2 []*Term
		for _, c := range ctx {
			if hasQuantStrict(c) {
				if g, ok := p.known[c.Canon()]; ok {
					if g != True {
						c2 = append(c2, g)
					}
					continue
				}
			}
			if !c.IsSym && c.Op == "and" && hasQuantStrict(c) {
				var keep []*Term
				for _, cc := range c.Args {
					if hasQuantStrict(cc) {
						if g, ok := p.known[cc.Canon()]; ok {
							if g != True {
								keep = append(keep, g)
							}
							continue
						}
					}
					keep = append(keep, cc)
				}
				c = And(keep...)
			}
			c2 = append(c2, c)
		}
		ctx = c2
	}
	// a guard that still contains a quantifier cannot be discharged by the
	// instance-only queries: such an instance only makes them harder
	for _, c := range ctx {
		if hasQuantStrict(c) {
			return
		}
	}
	f := Imp(And(ctx...), t)
	if f == True {
		return
	}
	k := f.String()
	if p.seen[k] {
		return
	}
	p.seen[k] = true
	p.out = append(p.out, f)
}

// walk visits the positive structure of an asserted formula.
func (p *preinst) walk(ctx []*Term, t *Term, depth int) {
	if t.IsSym || depth > 3 || len(p.out) >= p.limit {
		return
	}
	switch t.Op {
	case "and":
		for _, a := range t.Args {
			p.walk(ctx, a, depth)
		}
	case "=>":
		p.walk(append(append([]*Term{}, ctx...), t.Args[0]), t.Args[1], depth)
	case "or":
		// A \/ (forall ...)  ==  ~A => forall ...
		var q []*Term
		var rest []*Term
		for _, a := range t.Args {
			if hasQuantStrict(a) {
				q = append(q, a)
			} else {
				rest = append(rest, a)
			}
		}
		if len(q) == 1 {
			p.walk(append(append([]*Term{}, ctx...), Not(Or(rest...))), q[0], depth)
		}
	case "forall":
		if p.matchMode {
			p.walkMatched(ctx, t, depth)
			return
		}
		if len(t.Bound) == 2 && t.Bound[0].S == SInt && t.Bound[1].S == SInt && p.pairs {
			// two integer variables: pairs of the skolem constants (and their
			// successors), which is what distinctness / ordering facts need
			var cs []*Term
			cs = append(cs, p.hints...)
			cs = append(cs, p.focusSyms...)
			nsk := 0
			for _, c := range p.ints {
				if c.IsSym && len(c.Args) == 0 && strings.HasPrefix(c.Op, "sk.") && nsk < 6 {
					nsk++
					cs = append(cs, c)
					if c.IsSym && len(c.Args) == 0 && !p.tiny {
						cs = append(cs, Add(c, IntLit(1)))
					}
				}
			}
			for _, c1 := range cs {
				for _, c2 := range cs {
					inst := t.Args[0].Subst(map[string]*Term{t.Bound[0].Name: c1, t.Bound[1].Name: c2})
					p.emit(ctx, stripQuant(inst))
				}
			}
			return
		}
		if len(t.Bound) != 1 {
			return
		}
		b := t.Bound[0]
		switch b.S {
		case SInt:
			for _, c := range p.ints {
				inst := t.Args[0].Subst(map[string]*Term{b.Name: c})
				if !p.pairsOnly {
					p.emit(ctx, stripQuant(inst))
				}
				if !p.pairsOnly || hasTwoVarForall(inst) {
					p.walk(ctx, inst, depth+1)
				}
			}
		default:
			// instantiate with arguments of ground applications the variable is passed to
			cands := map[string]*Term{}
			t.Args[0].Walk(func(x *Term) {
				if !x.IsSym || len(x.Args) == 0 {
					return
				}
				for ai, a := range x.Args {
					if len(a.Args) == 0 && !a.IsSym && a.Op == b.Name {
						for _, ga := range p.apps[x.Op] {
							if ai < len(ga) && ga[ai].S == b.S {
								cands[ga[ai].String()] = ga[ai]
							}
						}
					}
					// f(.., sid(v), ..): candidates are the T of ground f(.., sid(T), ..)
					if !a.IsSym && a.Op == "sid" && len(a.Args) == 1 && len(a.Args[0].Args) == 0 && !a.Args[0].IsSym && a.Args[0].Op == b.Name {
						for _, ga := range p.apps[x.Op] {
							if ai < len(ga) && !ga[ai].IsSym && ga[ai].Op == "sid" && len(ga[ai].Args) == 1 && ga[ai].Args[0].S == b.S {
								cands[ga[ai].Args[0].String()] = ga[ai].Args[0]
							}
						}
					}
				}
			})
			for _, c := range cands {
				inst := t.Args[0].Subst(map[string]*Term{b.Name: c})
				p.emit(ctx, stripQuant(inst))
				p.walk(ctx, inst, depth+1)
			}
		}
	}
}

// stripQuant keeps the quantifier-free consequences of an instance: nested
// quantifiers in positive positions are replaced by true (their own
// instances are emitted separately by walk).
func stripQuant(t *Term) *Term {
	if t.IsSym {
		return t
	}
	switch t.Op {
	case "and":
		var as []*Term
		for _, a := range t.Args {
			as = append(as, stripQuant(a))
		}
		return And(as...)
	case "=>":
		if hasQuant(t.Args[0]) {
			return True
		}
		return Imp(t.Args[0], stripQuant(t.Args[1]))
	case "forall", "exists":
		if t.Op == "forall" {
			return True
		}
		return t
	}
	if hasQuantStrict(t) {
		if t.S == SBool {
			return t // keep: still a consequence
		}
	}
	return t
}

func hasQuantStrict(t *Term) bool {
	found := false
	t.Walk(func(x *Term) {
		if !x.IsSym && (x.Op == "forall" || x.Op == "exists") {
			found = true
		}
	})
	return found
}

func preInstantiate(D *Decls, asserts []*Term, focus []*Term, withPairs bool, hints []*Term, tiny bool) []*Term {
	all := append(append([]*Term{}, asserts...), focus...)
	p := collectCandidates(all, focus)
	if tiny {
		p.limit = 350
	}
	p.pairs = withPairs
	p.known = map[string]*Term{}
	var addKnown func(t *Term, guard *Term, depth int)
	addKnown = func(t *Term, guard *Term, depth int) {
		if !hasQuantStrict(t) || depth > 3 {
			return
		}
		if !t.IsSym && t.Op == "and" {
			for _, a := range t.Args {
				addKnown(a, guard, depth+1)
			}
			return
		}
		if !t.IsSym && t.Op == "=>" && !hasQuantStrict(t.Args[0]) {
			addKnown(t.Args[1], And(guard, t.Args[0]), depth+1)
			return
		}
		// P ==> Q with P a quantified fact that is itself known: Q is known too
		if !t.IsSym && t.Op == "=>" && hasQuantStrict(t.Args[0]) {
			if g2, ok := p.known[t.Args[0].Canon()]; ok {
				addKnown(t.Args[1], And(guard, g2), depth+1)
			}
		}
		if _, dup := p.known[t.Canon()]; !dup {
			p.known[t.Canon()] = guard
		}
	}
	for round := 0; round < 3; round++ {
		before := len(p.known)
		for _, a := range all {
			addKnown(a, True, 0)
		}
		if len(p.known) == before {
			break
		}
	}
	// pointer-like constants the goal itself mentions (pair candidates)
	fs := map[string]bool{}
	for _, f := range focus {
		f.Walk(func(x *Term) {
			if x.IsSym && len(x.Args) == 0 && x.S == SInt && !strings.HasPrefix(x.Op, "sk.") && !strings.HasPrefix(x.Op, "$") && !strings.HasPrefix(x.Op, "w.") && len(p.focusSyms) < 6 && !fs[x.Op] {
				fs[x.Op] = true
				p.focusSyms = append(p.focusSyms, x)
			}
		})
	}
	hs := map[string]bool{}
	for _, h := range hints {
		if k := h.String(); !hs[k] {
			hs[k] = true
			p.hints = append(p.hints, h)
		}
	}
	p.ints = append(append([]*Term{}, p.hints...), p.ints...)
	// offset 0 (first byte / first element) is always worth trying
	hasZero := false
	for _, c := range p.ints {
		if v, ok := c.IntVal(); ok && v == 0 {
			hasZero = true
		}
	}
	if !hasZero {
		p.ints = append(p.ints[:min(len(p.ints), 5)], append([]*Term{IntLit(0)}, p.ints[min(len(p.ints), 5):]...)...)
	}
	// content equality is identity of string ids: streq(a,b) = (sid a = sid b).
	// For every ground atom streq(a, b) the link to the bytes is made explicit:
	//   sid a = sid b  ==> len(a) = len(b)  and equal bytes at the candidates
	//   sid a != sid b ==> len(a) != len(b) or a[w] != b[w] for a fresh w
	seenEq := map[string]bool{}
	var wit []*Term
	type pair struct{ a, b *Term }
	var pairs []pair
	for _, t := range all {
		t.Walk(func(x *Term) {
			if x.IsSym || x.Op != "streq" || len(seenEq) >= 16 || !isGroundTerm(x) {
				return
			}
			k := x.String()
			if seenEq[k] {
				return
			}
			seenEq[k] = true
			a, b := x.Args[0], x.Args[1]
			w := D.Fresh("w.streq", SInt)
			wit = append(wit, Or(x, Neq(SLen(a), SLen(b)), And(Le(IntLit(0), w), Lt(w, SLen(a)), Neq(SAt(a, w), SAt(b, w)))))
			wit = append(wit, Imp(x, Eq(SLen(a), SLen(b))))
			// witnesses rank after the goal's own constants, which must stay in the first batch
			at := min(len(p.ints), 6)
			p.ints = append(p.ints[:at:at], append([]*Term{w}, p.ints[at:]...)...)
			pairs = append(pairs, pair{a, b})
		})
	}
	for _, pr := range pairs {
		for _, c := range p.ints {
			wit = append(wit, Imp(And(StrEq(pr.a, pr.b), Le(IntLit(0), c), Lt(c, SLen(pr.a))), Eq(SAt(pr.a, c), SAt(pr.b, c))))
		}
	}
	// successors of skolem positions (shifted sequences: seqdel, append)
	var succ []*Term
	for _, c := range p.ints {
		if c.IsSym && len(c.Args) == 0 && strings.HasPrefix(c.Op, "sk.") && len(succ) < 4 {
			succ = append(succ, Add(c, IntLit(1)))
		}
	}
	p.ints = append(p.ints, succ...)
	p.out = append(p.out, wit...)
	p.engineInstances(all) // first: these must not fall victim to the instance limit
	// one-variable instances first; pair instances (many) afterwards so that
	// they cannot crowd the former out of the instance budget
	// Candidates are tried in priority order (hints and the goal's own
	// constants first) across *all* quantified hypotheses before the next
	// batch, so that late hypotheses are not starved by the instance budget.
	p.pairs = false
	allInts := p.ints
	// Quantified hypotheses are visited nearest-first: those that share a
	// state symbol (heap array, trace, ...) with the goal, then those sharing
	// one with these, and so on, so that the frame chain from the goal's state
	// back to the entry state is instantiated before the budget runs out.
	asserts = orderByRelevance(asserts, focus)
	// pass A: trigger matching, seeded by the goal, then by everything, then by
	// what the first rounds produced
	{
		p.matchMode = true
		saveLimit := p.limit
		perRound, rounds := 900, 9
		if tiny {
			perRound, rounds = 200, 3
		}
		p.addPool(focus, false)
		for round := 0; round < rounds; round++ {
			n0 := len(p.out)
			p.limit = n0 + perRound
			for _, a := range asserts {
				if hasQuantStrict(a) {
					p.walk(nil, a, 0)
				}
			}
			if round == 0 {
				p.addPool(all, true)
			}
			p.addPool(p.out[n0:], true)
			if len(p.out) == n0 && round > 0 {
				break
			}
		}
		p.matchMode = false
		p.limit = saveLimit + (len(p.out))
	}
	batches := []int{6, 16, len(allInts)}
	if tiny {
		batches = []int{8}
	}
	for _, n := range batches {
		if n > len(allInts) {
			n = len(allInts)
		}
		p.ints = allInts[:n]
		for _, a := range asserts {
			if hasQuantStrict(a) {
				p.walk(nil, a, 0)
			}
		}
		if n == len(allInts) {
			break
		}
	}
	if tiny {
		p.pairs, p.pairsOnly, p.tiny = true, true, true
		p.limit += 700
		for _, a := range asserts {
			if hasQuantStrict(a) {
				p.walk(nil, a, 0)
			}
		}
		p.limit += 400
		p.engineInstances(append(append([]*Term{}, all...), p.out...))
		return p.out
	}
	p.ints = allInts
	if withPairs {
		p.pairs, p.pairsOnly = true, true
		p.limit += 2500
		for _, a := range asserts {
			if hasQuantStrict(a) {
				p.walk(nil, a, 0)
			}
		}
		p.pairsOnly = false
	}
	p.limit += 800
	p.engineInstances(append(append([]*Term{}, all...), p.out...))
	// second round: index expressions that only appear in the instances just
	// produced (e.g. tr[pos[k]] after instantiating an invariant at k)
	have := map[string]bool{}
	for _, c := range p.ints {
		have[c.String()] = true
	}
	var fresh []*Term
	for _, inst := range p.out {
		inst.Walk(func(x *Term) {
			if !x.IsSym && x.Op == "select" && len(x.Args) == 2 && x.Args[1].S == SInt && len(fresh) < 12 {
				idx := x.Args[1]
				if _, isC := idx.IntVal(); isC || !isGroundTerm(idx) || idx.Size() > 12 {
					return
				}
				if !idx.IsSym && idx.Op == "+" {
					return // offsets into strings: covered by the first round
				}
				if k := idx.String(); !have[k] {
					have[k] = true
					fresh = append(fresh, idx)
				}
			}
		})
	}
	if len(fresh) > 0 {
		p.ints = fresh
		for _, a := range asserts {
			if hasQuantStrict(a) {
				p.walk(nil, a, 0)
			}
		}
	}
	return p.out
}

// engineInstances: ground instances of the (quantified) axioms of the
// engine's own function symbols - sconcat, chr, seqshift - for the ground
// applications that occur, at the candidate integers.
func (p *preinst) engineInstances(all []*Term) {
	seen := map[string]bool{}
	// reads select(select(M, row), idx) of map heaps, by M: who is a member of which set
	type rowRead struct{ row, idx *Term }
	rowReads := map[string][]rowRead{}
	rrSeen := map[string]bool{}
	for _, t := range all {
		t.Walk(func(x *Term) {
			if x.IsSym || x.Op != "select" || len(x.Args) != 2 || x.S != SBool {
				return
			}
			in := x.Args[0]
			if in.IsSym || in.Op != "select" || len(in.Args) != 2 || !isGroundTerm(x) {
				return
			}
			if k := x.String(); !rrSeen[k] && len(rowReads[in.Args[0].String()]) < 24 && x.Args[1].Size() <= 48 {
				rrSeen[k] = true
				rowReads[in.Args[0].String()] = append(rowReads[in.Args[0].String()], rowRead{in.Args[1], x.Args[1]})
			}
		})
	}
	// string identities: sid(a) = sid(b) <=> a, b have the same contents
	var sids []*Term
	sidSeen := map[string]bool{}
	for _, t := range all {
		t.Walk(func(x *Term) {
			if !x.IsSym && x.Op == "sid" && len(x.Args) == 1 && isGroundTerm(x) && len(sids) < 14 {
				if k := x.String(); !sidSeen[k] {
					sidSeen[k] = true
					sids = append(sids, x)
				}
			}
		})
	}
	// sid(a) = sid(b) is streq(a,b) by definition; byte-level links are added per
	// streq atom, and here for every identity compared with a short literal:
	// equal length and bytes <=> equal identity
	for _, l := range sids {
		lt := l.Args[0]
		if lt.IsSym || lt.Op != "mkstr" || len(lt.Args) != 3 || !strings.HasPrefix(lt.Args[0].Op, "lit!") {
			continue
		}
		n, ok := lt.Args[2].IntVal()
		if !ok || n > 8 {
			continue
		}
		for _, x := range sids {
			if x == l {
				continue
			}
			t := x.Args[0]
			conj := []*Term{Eq(SLen(t), IntLit(n))}
			for j := int64(0); j < n; j++ {
				conj = append(conj, Eq(SAt(t, IntLit(j)), SAt(lt, IntLit(j))))
			}
			p.emit(nil, Eq(Eq(x, l), And(conj...)))
		}
	}
	// sidsetf / joinspf applications (sets and joins over []string rows)
	var ssets, joins []*Term
	ssSeen := map[string]bool{}
	hasJoin := false
	for _, t := range all {
		t.Walk(func(x *Term) {
			if x.IsSym && (x.Op == "sidsetf" || x.Op == "joinspf") && isGroundTerm(x) {
				if k := x.String(); !ssSeen[k] {
					ssSeen[k] = true
					if x.Op == "sidsetf" && len(ssets) < 12 {
						ssets = append(ssets, x)
					} else if x.Op == "joinspf" && len(joins) < 12 {
						joins = append(joins, x)
						hasJoin = true
					}
				}
			}
		})
	}
	sidwit := func(s *Term, k *Term) *Term { return bi("sidwit", SInt, s.Args[0], s.Args[1], s.Args[2], k) }
	for _, s1 := range ssets {
		r, lo, hi := s1.Args[0], s1.Args[1], s1.Args[2]
		for _, c := range p.ints {
			p.emit(nil, Imp(Le(hi, lo), Not(Select(s1, c))))
			p.emit(nil, Imp(And(Le(lo, c), Lt(c, hi)), Select(s1, Sid(Select(r, c)))))
			w := sidwit(s1, c)
			p.emit(nil, Imp(Select(s1, c), And(Le(lo, w), Lt(w, hi), Eq(Sid(Select(r, w)), c))))
		}
		// the last element belongs to the set
		last := Sub(hi, IntLit(1))
		p.emit(nil, Imp(Le(lo, last), Select(s1, Sid(Select(r, last)))))
		// a range of literal length: unfolded
		if d, ok := Sub(hi, lo).IntVal(); ok && d >= 0 && d <= 4 {
			for _, c := range p.ints {
				var ds []*Term
				for j := int64(0); j < d; j++ {
					ds = append(ds, Eq(Sid(Select(r, Add(lo, IntLit(j)))), c))
				}
				p.emit(nil, Eq(Select(s1, c), Or(ds...)))
			}
		}
		for _, s2 := range ssets {
			if s1 == s2 || s1.Args[1].String() != s2.Args[1].String() {
				continue
			}
			h2 := s2.Args[2]
			sameRow := Eq(s1.Args[0], s2.Args[0])
			for _, c := range p.ints {
				p.emit(nil, Imp(And(sameRow, Eq(h2, Add(hi, IntLit(1))), Le(lo, hi)),
					Eq(Select(s2, c), Or(Select(s1, c), Eq(Sid(Select(r, hi)), c)))))
			}
		}
	}
	// spec functions of one string are functions of its contents
	{
		type app struct{ t, arg *Term }
		byFn := map[string][]app{}
		seenApp := map[string]bool{}
		var names []string
		for _, t := range all {
			t.Walk(func(x *Term) {
				if x.IsSym && len(x.Args) == 1 && strings.HasPrefix(x.Op, "sf.") && x.Args[0].S == SStr && isGroundTerm(x) {
					if k := x.String(); !seenApp[k] && len(byFn[x.Op]) < 6 {
						seenApp[k] = true
						if len(byFn[x.Op]) == 0 {
							names = append(names, x.Op)
						}
						byFn[x.Op] = append(byFn[x.Op], app{x, x.Args[0]})
					}
				}
			})
		}
		for _, n := range names {
			as := byFn[n]
			for i := 0; i < len(as); i++ {
				for j := i + 1; j < len(as); j++ {
					same := Eq(Sid(as[i].arg), Sid(as[j].arg))
					if as[i].t.S == SStr {
						p.emit(nil, Imp(same, And(Eq(Sid(as[i].t), Sid(as[j].t)), Eq(SLen(as[i].t), SLen(as[j].t)))))
					} else {
						p.emit(nil, Imp(same, Eq(as[i].t, as[j].t)))
					}
				}
			}
		}
	}
	catid := func(a, b *Term) *Term { return bi("catid", SInt, a, b) }
	for _, j1 := range joins {
		r, lo, hi, sep := j1.Args[0], j1.Args[1], j1.Args[2], j1.Args[3]
		p.emit(nil, Imp(Eq(hi, Add(lo, IntLit(1))), And(Eq(Sid(j1), Sid(Select(r, lo))), Eq(SLen(j1), SLen(Select(r, lo))))))
		p.emit(nil, Ge(SLen(j1), IntLit(0)))
		for _, j2 := range joins {
			if j1 == j2 || j1.Args[0].String() != j2.Args[0].String() || j1.Args[1].String() != j2.Args[1].String() || j1.Args[3].String() != j2.Args[3].String() {
				continue
			}
			h2 := j2.Args[2]
			p.emit(nil, Imp(And(Eq(h2, Add(hi, IntLit(1))), Gt(hi, lo)),
				And(Eq(Sid(j2), catid(Sid(j1), catid(Sid(sep), Sid(Select(r, hi))))),
					Eq(SLen(j2), Add(Add(SLen(j1), SLen(sep)), SLen(Select(r, hi)))))))
		}
	}
	for _, t := range all {
		t.Walk(func(x *Term) {
			if !x.IsSym || len(x.Args) == 0 || !isGroundTerm(x) {
				return
			}
			k := x.String()
			if seen[k] {
				return
			}
			switch x.Op {
			case "sconcat":
				seen[k] = true
				a, b := x.Args[0], x.Args[1]
				if hasJoin || len(sids) > 0 {
					// concatenation is a function of contents
					p.emit(nil, Eq(Sid(x), catid(Sid(a), Sid(b))))
				}
				p.emit(nil, And(Eq(SOff(x), IntLit(0)), Eq(SLen(x), Add(SLen(a), SLen(b)))))
				for _, c := range p.ints {
					p.emit(nil, Imp(And(Le(IntLit(0), c), Lt(c, SLen(a))), Eq(Select(SArr(x), c), SAt(a, c))))
					p.emit(nil, Imp(And(Le(SLen(a), c), Lt(c, Add(SLen(a), SLen(b)))), Eq(Select(SArr(x), c), SAt(b, Sub(c, SLen(a))))))
				}
				// the bytes of a short literal right operand
				if n, ok := SLen(b).IntVal(); ok && n <= 8 {
					for j := int64(0); j < n; j++ {
						p.emit(nil, Eq(Select(SArr(x), Add(SLen(a), IntLit(j))), SAt(b, IntLit(j))))
					}
				}
			case "card":
				seen[k] = true
				d := x.Args[0]
				p.emit(nil, Ge(x, IntLit(0)))
				p.emit(nil, Imp(Gt(x, IntLit(0)), Select(d, bi("cardwit", SInt, d))))
				for _, c := range p.ints {
					p.emit(nil, Imp(Select(d, c), Gt(x, IntLit(0))))
				}
				// members read elsewhere from the same set, or from a row of the same
				// map heap that may be the same row: d = select(M, X), read select(select(M, X'), c)
				if !d.IsSym && d.Op == "select" && len(d.Args) == 2 {
					n := 0
					for _, rd := range rowReads[d.Args[0].String()] {
						if n > 16 {
							break
						}
						n++
						if rd.row.String() == d.Args[1].String() {
							p.emit(nil, Imp(Select(d, rd.idx), Gt(x, IntLit(0))))
						} else {
							p.emit(nil, Imp(And(Eq(rd.row, d.Args[1]), Select(Select(d.Args[0], rd.row), rd.idx)), Gt(x, IntLit(0))))
						}
					}
				}
				if !d.IsSym && d.Op == "store" && len(d.Args) == 3 {
					d0, kk, v := d.Args[0], d.Args[1], d.Args[2]
					c0 := App("card", SInt, d0)
					if v == True {
						p.emit(nil, Eq(x, Ite(Select(d0, kk), c0, Add(c0, IntLit(1)))))
					} else if v == False {
						p.emit(nil, Eq(x, Ite(Select(d0, kk), Sub(c0, IntLit(1)), c0)))
					}
				}
			case "chr":
				seen[k] = true
				c := x.Args[0]
				p.emit(nil, And(Eq(SOff(x), IntLit(0)),
					Imp(And(Le(IntLit(0), c), Lt(c, IntLit(128))), And(Eq(SLen(x), IntLit(1)), Eq(Select(SArr(x), IntLit(0)), c))),
					Imp(And(Le(IntLit(128), c), Lt(c, IntLit(2048))), Eq(SLen(x), IntLit(2)))))
			case "seqdel":
				seen[k] = true
				sq, pp := x.Args[0], x.Args[1]
				p.emit(nil, Eq(SeqLen(x), Sub(SeqLen(sq), IntLit(1))))
				for _, c := range p.ints {
					p.emit(nil, Eq(Select(SeqArr(x), c), Ite(Lt(c, pp), Select(SeqArr(sq), c), Select(SeqArr(sq), Add(c, IntLit(1))))))
				}
			case "seqshift":
				seen[k] = true
				for _, c := range p.ints {
					p.emit(nil, Eq(Select(x, c), Select(x.Args[0], Add(x.Args[1], c))))
				}
			}
		})
	}
}

func hasTwoVarForall(t *Term) bool {
	found := false
	t.Walk(func(x *Term) {
		if !x.IsSym && x.Op == "forall" && len(x.Bound) == 2 {
			found = true
		}
	})
	return found
}

// stateSyms: nullary non-scalar symbols (heap arrays, traces, ghost maps) of a term.
func stateSyms(t *Term, into map[string]bool) {
	t.Walk(func(x *Term) {
		if x.IsSym && len(x.Args) == 0 && x.S.IsArr() {
			into[x.Op] = true
		}
	})
}

// orderByRelevance sorts the quantified hypotheses by breadth-first distance
// (through shared state symbols) from the focus; unquantified ones keep their
// place at the front. Stable within a distance class.
func orderByRelevance(asserts []*Term, focus []*Term) []*Term {
	reached := map[string]bool{}
	for _, f := range focus {
		stateSyms(f, reached)
	}
	type item struct {
		t    *Term
		syms map[string]bool
		done bool
	}
	var quant []*item
	var out []*Term
	for _, a := range asserts {
		if hasQuantStrict(a) {
			it := &item{t: a, syms: map[string]bool{}}
			stateSyms(a, it.syms)
			quant = append(quant, it)
		} else {
			out = append(out, a)
		}
	}
	for round := 0; round < 12; round++ {
		var layer []*item
		for _, it := range quant {
			if it.done {
				continue
			}
			for s := range it.syms {
				if reached[s] {
					layer = append(layer, it)
					break
				}
			}
		}
		if len(layer) == 0 {
			break
		}
		for _, it := range layer {
			it.done = true
			out = append(out, it.t)
		}
		for _, it := range layer {
			for s := range it.syms {
				reached[s] = true
			}
		}
	}
	for _, it := range quant {
		if !it.done {
			out = append(out, it.t)
		}
	}
	return out
}

// ---------------------------------------------------------------------------
// Trigger-style instantiation. A bound variable v that occurs as the index of
// a read select(A, v) with A free of bound variables is matched against the
// ground reads select(A, t) present in the hypotheses, the goal and the
// instances produced so far: v := t. This is what an SMT solver's E-matching
// does with the pattern select(A, v); doing it here keeps the queries ground
// and the instance sets small and relevant.

func (p *preinst) addPool(ts []*Term, restrict bool) {
	if p.pool == nil {
		p.pool = map[string][]*Term{}
		p.poolSeen = map[string]bool{}
		p.poolArr = map[string]*Term{}
		p.active = map[string]bool{}
	}
	// with restrict, only reads whose index is (or is built from) a term already
	// derived from the goal are added: the pool grows along the goal's frame
	// chains instead of over everything the hypotheses mention
	derived := func(idx *Term) bool {
		ok := false
		idx.Walk(func(y *Term) {
			if !ok && y.S == SInt && p.active[y.String()] {
				ok = true
			}
		})
		return ok
	}
	for _, t := range ts {
		t.Walk(func(x *Term) {
			if x.IsSym || x.Op != "select" || len(x.Args) != 2 || x.Args[1].S != SInt {
				return
			}
			if !isGroundTerm(x) {
				return
			}
			if _, isC := x.Args[1].IntVal(); isC {
				return
			}
			if x.Args[1].Size() > 48 {
				return
			}
			if restrict && !derived(x.Args[1]) {
				return
			}
			ak := x.Args[0].String()
			ik := x.Args[1].String()
			k := ak + "|" + ik
			if p.poolSeen[k] {
				return
			}
			p.poolSeen[k] = true
			p.active[ik] = true
			if len(p.pool[ak]) < 24 {
				p.pool[ak] = append(p.pool[ak], x.Args[1])
				p.poolArr[ak] = x.Args[0]
			}
		})
	}
}

// matchCands: ground terms the bound variable name can be matched to.
func (p *preinst) matchCands(body *Term, name string, bound map[string]bool) []*Term {
	seen := map[string]bool{}
	var out []*Term
	body.Walk(func(x *Term) {
		if x.IsSym || x.Op != "select" || len(x.Args) != 2 {
			return
		}
		v := x.Args[1]
		if v.IsSym || len(v.Args) != 0 || v.Op != name {
			return
		}
		// the array must not mention bound variables
		free := true
		x.Args[0].Walk(func(y *Term) {
			if len(y.Args) == 0 && !y.IsSym && bound[y.Op] {
				free = false
			}
		})
		if !free {
			return
		}
		for _, c := range p.pool[x.Args[0].String()] {
			if k := c.String(); !seen[k] && len(out) < 16 {
				seen[k] = true
				out = append(out, c)
			}
		}
	})
	return out
}

func (p *preinst) walkMatched(ctx []*Term, t *Term, depth int) {
	if len(t.Bound) > 2 {
		return
	}
	bound := map[string]bool{}
	for _, b := range t.Bound {
		if b.S != SInt {
			return
		}
		bound[b.Name] = true
	}
	c0 := p.matchCands(t.Args[0], t.Bound[0].Name, bound)
	if len(t.Bound) == 1 {
		for _, c := range c0 {
			inst := t.Args[0].Subst(map[string]*Term{t.Bound[0].Name: c})
			p.emit(ctx, stripQuant(inst))
			p.walk(ctx, inst, depth+1)
		}
		return
	}
	c1 := p.matchCands(t.Args[0], t.Bound[1].Name, bound)
	// a variable without a direct trigger is matched after substituting the other
	if len(c0) > 0 && len(c1) == 0 {
		for _, a := range c0 {
			part := t.Args[0].Subst(map[string]*Term{t.Bound[0].Name: a})
			for _, b := range p.matchCands(part, t.Bound[1].Name, map[string]bool{t.Bound[1].Name: true}) {
				inst := part.Subst(map[string]*Term{t.Bound[1].Name: b})
				p.emit(ctx, stripQuant(inst))
			}
		}
		return
	}
	if len(c1) > 0 && len(c0) == 0 {
		for _, b := range c1 {
			part := t.Args[0].Subst(map[string]*Term{t.Bound[1].Name: b})
			for _, a := range p.matchCands(part, t.Bound[0].Name, map[string]bool{t.Bound[0].Name: true}) {
				inst := part.Subst(map[string]*Term{t.Bound[0].Name: a})
				p.emit(ctx, stripQuant(inst))
			}
		}
		return
	}
	if len(c0) > 8 {
		c0 = c0[:8]
	}
	if len(c1) > 8 {
		c1 = c1[:8]
	}
	for _, a := range c0 {
		for _, b := range c1 {
			inst := t.Args[0].Subst(map[string]*Term{t.Bound[0].Name: a, t.Bound[1].Name: b})
			p.emit(ctx, stripQuant(inst))
		}
	}
}
