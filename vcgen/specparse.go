package main

// Contract language: lexer, Pratt parser for expressions, and the reader for
// the //@ contract files (Gobra-style comment lines in build-tagged,
// comment-only Go files in /repo, and .spec files for trusted dependencies).

import (
	"fmt"
	"os"
	"strconv"
	"strings"
	"unicode"
)

// ---------------------------------------------------------------------------
// AST

type SExpr interface{}

type (
	SIdent   struct{ Name string }
	SIntLit  struct{ Val string }
	SStrLit  struct{ Val string }
	SCharLit struct{ Val int64 }
	SBoolLit struct{ Val bool }
	SNil     struct{}
	SUnary   struct {
		Op string
		X  SExpr
	}
	SBinary struct {
		Op   string
		X, Y SExpr
	}
	SCond struct{ C, A, B SExpr }
	SCall struct {
		Fn   string
		Args []SExpr
	}
	SIndex  struct{ X, I SExpr }
	SSliceE struct{ X, Lo, Hi SExpr }
	SSel    struct {
		X    SExpr
		Name string
	}
	SQVar  struct{ Name, Type string }
	SQuant struct {
		Kind string // forall / exists
		Vars []SQVar
		Body SExpr
	}
	SOld    struct{ X SExpr }
	SSeqLit struct{ Elems []SExpr }
	SLet    struct {
		Name string
		Val  SExpr
		Body SExpr
	}
)

// ---------------------------------------------------------------------------
// lexer

type tok struct {
	kind string // ident int str char op eof
	s    string
	pos  int
}

type lexer struct {
	src  string
	toks []tok
	p    int
}

var ops = []string{"<==>", "==>", "===", "!==", "::", ":=", "&&", "||", "==", "!=", "<=", ">=", "++", "<<", ">>", "..",
	"+", "-", "*", "/", "%", "<", ">", "!", "(", ")", "[", "]", "{", "}", ",", ".", "?", ":", "#", "@", "|", "&"}

func lex(src string) ([]tok, error) {
	var toks []tok
	i := 0
	for i < len(src) {
		c := src[i]
		switch {
		case c == ' ' || c == '\t' || c == '\n' || c == '\r':
			i++
		case c == '/' && i+1 < len(src) && src[i+1] == '/':
			// comment to end of line
			for i < len(src) && src[i] != '\n' {
				i++
			}
		case unicode.IsLetter(rune(c)) || c == '_' || c == '$':
			j := i
			for j < len(src) && (unicode.IsLetter(rune(src[j])) || unicode.IsDigit(rune(src[j])) || src[j] == '_' || src[j] == '$') {
				j++
			}
			toks = append(toks, tok{"ident", src[i:j], i})
			i = j
		case c >= '0' && c <= '9':
			j := i
			for j < len(src) && (src[j] >= '0' && src[j] <= '9' || src[j] == '_' || src[j] == 'x' || (src[j] >= 'a' && src[j] <= 'f') || (src[j] >= 'A' && src[j] <= 'F')) {
				j++
			}
			toks = append(toks, tok{"int", strings.ReplaceAll(src[i:j], "_", ""), i})
			i = j
		case c == '"':
			j := i + 1
			for j < len(src) && src[j] != '"' {
				if src[j] == '\\' {
					j++
				}
				j++
			}
			if j >= len(src) {
				return nil, fmt.Errorf("unterminated string at %d", i)
			}
			s, err := strconv.Unquote(src[i : j+1])
			if err != nil {
				return nil, fmt.Errorf("bad string %s: %v", src[i:j+1], err)
			}
			toks = append(toks, tok{"str", s, i})
			i = j + 1
		case c == '\'':
			j := i + 1
			for j < len(src) && src[j] != '\'' {
				if src[j] == '\\' {
					j++
				}
				j++
			}
			if j >= len(src) {
				return nil, fmt.Errorf("unterminated char at %d", i)
			}
			r, _, _, err := strconv.UnquoteChar(src[i+1:j], '\'')
			if err != nil {
				return nil, fmt.Errorf("bad char %s: %v", src[i:j+1], err)
			}
			toks = append(toks, tok{"char", strconv.FormatInt(int64(r), 10), i})
			i = j + 1
		default:
			found := false
			for _, o := range ops {
				if strings.HasPrefix(src[i:], o) {
					toks = append(toks, tok{"op", o, i})
					i += len(o)
					found = true
					break
				}
			}
			if !found {
				return nil, fmt.Errorf("unexpected character %q at %d in %q", c, i, src)
			}
		}
	}
	toks = append(toks, tok{"eof", "", len(src)})
	return toks, nil
}

// ---------------------------------------------------------------------------
// parser

type parser struct {
	toks []tok
	p    int
	src  string
}

func (p *parser) peek() tok { return p.toks[p.p] }
func (p *parser) next() tok { t := p.toks[p.p]; p.p++; return t }
func (p *parser) isOp(s string) bool {
	t := p.peek()
	return t.kind == "op" && t.s == s
}
func (p *parser) isIdent(s string) bool {
	t := p.peek()
	return t.kind == "ident" && t.s == s
}
func (p *parser) expectOp(s string) {
	t := p.next()
	if t.kind != "op" || t.s != s {
		panic(fmt.Sprintf("expected %q, got %q at %d in %q", s, t.s, t.pos, p.src))
	}
}

func ParseSpecExpr(src string) (e SExpr, err error) {
	toks, lerr := lex(src)
	if lerr != nil {
		return nil, lerr
	}
	p := &parser{toks: toks, src: src}
	defer func() {
		if r := recover(); r != nil {
			err = fmt.Errorf("%v", r)
		}
	}()
	e = p.expr(0)
	if p.peek().kind != "eof" {
		panic(fmt.Sprintf("trailing tokens at %d (%q) in %q", p.peek().pos, p.peek().s, src))
	}
	return e, nil
}

var binPrec = map[string]int{
	"<==>": 1, "==>": 2, "||": 3, "&&": 4,
	"==": 5, "!=": 5, "<": 5, "<=": 5, ">": 5, ">=": 5, "===": 5, "!==": 5,
	"+": 6, "-": 6, "++": 6,
	"*": 7, "/": 7, "%": 7,
}

func (p *parser) expr(minPrec int) SExpr {
	// quantifiers and let bind as far right as possible
	if p.isIdent("forall") || p.isIdent("exists") {
		kind := p.next().s
		var vars []SQVar
		for {
			name := p.next()
			if name.kind != "ident" {
				panic(fmt.Sprintf("expected bound variable at %d in %q", name.pos, p.src))
			}
			ty := p.typeName()
			vars = append(vars, SQVar{name.s, ty})
			if p.isOp(",") {
				p.next()
				continue
			}
			break
		}
		p.expectOp("::")
		body := p.expr(0)
		return &SQuant{Kind: kind, Vars: vars, Body: body}
	}
	if p.isIdent("let") {
		p.next()
		name := p.next().s
		p.expectOp(":=")
		val := p.expr(3)
		if !p.isIdent("in") {
			panic("expected 'in' after let in " + p.src)
		}
		p.next()
		body := p.expr(0)
		return &SLet{Name: name, Val: val, Body: body}
	}
	lhs := p.unary()
	for {
		t := p.peek()
		if t.kind != "op" {
			break
		}
		if t.s == "?" && minPrec == 0 {
			p.next()
			a := p.expr(1)
			p.expectOp(":")
			b := p.expr(0)
			lhs = &SCond{lhs, a, b}
			continue
		}
		prec, ok := binPrec[t.s]
		if !ok || prec < minPrec {
			break
		}
		p.next()
		var rhs SExpr
		if t.s == "==>" {
			rhs = p.expr(prec) // right assoc
		} else {
			rhs = p.expr(prec + 1)
		}
		lhs = &SBinary{t.s, lhs, rhs}
	}
	return lhs
}

func (p *parser) typeName() string {
	// a type is a run of tokens: optional '*' / '[' ']' prefixes, then ident ( '.' ident )?
	var sb strings.Builder
	for p.isOp("*") || p.isOp("[") || p.isOp("]") {
		sb.WriteString(p.next().s)
	}
	t := p.next()
	if t.kind != "ident" {
		panic(fmt.Sprintf("expected type name at %d in %q", t.pos, p.src))
	}
	sb.WriteString(t.s)
	if t.s == "map" {
		p.expectOp("[")
		sb.WriteString("[" + p.typeName() + "]")
		p.expectOp("]")
		sb.WriteString(p.typeName())
		return sb.String()
	}
	for p.isOp(".") {
		p.next()
		sb.WriteString("." + p.next().s)
	}
	return sb.String()
}

func (p *parser) unary() SExpr {
	t := p.peek()
	if t.kind == "op" && (t.s == "!" || t.s == "-") {
		p.next()
		x := p.unary()
		return &SUnary{t.s, x}
	}
	return p.postfix(p.primary())
}

func (p *parser) primary() SExpr {
	t := p.next()
	switch t.kind {
	case "int":
		v := t.s
		if strings.HasPrefix(v, "0x") {
			n, err := strconv.ParseInt(v[2:], 16, 64)
			if err != nil {
				panic(err)
			}
			v = strconv.FormatInt(n, 10)
		}
		return &SIntLit{v}
	case "str":
		return &SStrLit{t.s}
	case "char":
		n, _ := strconv.ParseInt(t.s, 10, 64)
		return &SCharLit{n}
	case "ident":
		switch t.s {
		case "true":
			return &SBoolLit{true}
		case "false":
			return &SBoolLit{false}
		case "nil":
			return &SNil{}
		case "old":
			if p.isOp("(") {
				p.expectOp("(")
				x := p.expr(0)
				p.expectOp(")")
				return &SOld{x}
			}
			return &SIdent{t.s}
		}
		if p.isOp("(") {
			p.next()
			var args []SExpr
			for !p.isOp(")") {
				args = append(args, p.expr(0))
				if p.isOp(",") {
					p.next()
				}
			}
			p.expectOp(")")
			return &SCall{t.s, args}
		}
		return &SIdent{t.s}
	case "op":
		switch t.s {
		case "(":
			x := p.expr(0)
			p.expectOp(")")
			return x
		case "[":
			var elems []SExpr
			for !p.isOp("]") {
				elems = append(elems, p.expr(0))
				if p.isOp(",") {
					p.next()
				}
			}
			p.expectOp("]")
			return &SSeqLit{elems}
		case "#":
			// #i : number of completed iterations of the enclosing range loop
			n := p.next()
			return &SIdent{"#" + n.s}
		}
	}
	panic(fmt.Sprintf("unexpected token %q at %d in %q", t.s, t.pos, p.src))
}

func (p *parser) postfix(x SExpr) SExpr {
	for {
		switch {
		case p.isOp("."):
			p.next()
			n := p.next()
			if n.kind != "ident" {
				panic("expected field name in " + p.src)
			}
			// method-style spec call x.f(args) is sugar for f(x, args)
			if p.isOp("(") {
				p.next()
				args := []SExpr{x}
				for !p.isOp(")") {
					args = append(args, p.expr(0))
					if p.isOp(",") {
						p.next()
					}
				}
				p.expectOp(")")
				x = &SCall{n.s, args}
			} else {
				x = &SSel{x, n.s}
			}
		case p.isOp("["):
			p.next()
			var lo, hi SExpr
			if p.isOp(":") {
				p.next()
				if !p.isOp("]") {
					hi = p.expr(0)
				}
				p.expectOp("]")
				x = &SSliceE{x, nil, hi}
				continue
			}
			lo = p.expr(1)
			if p.isOp(":") {
				p.next()
				if !p.isOp("]") {
					hi = p.expr(0)
				}
				p.expectOp("]")
				x = &SSliceE{x, lo, hi}
				continue
			}
			p.expectOp("]")
			x = &SIndex{x, lo}
		default:
			return x
		}
	}
}

// ---------------------------------------------------------------------------
// contract files

type Clause struct {
	Kind  string // requires ensures invariant decreases modifies let ghost step ...
	Tags  []string
	Text  string
	Expr  SExpr
	Name  string // let / ghost name, axiom name
	Type  string // ghost type
	Line  int
	File  string
	Exprs []SExpr // modifies list
}

type LoopSpec struct {
	Ordinal int
	Clauses []*Clause
}

type Param struct{ Name, Type string }

type FuncSpec struct {
	Key     string // SSA-style function name: ParseLine, (*Conn).rateLimit, (*hSet).dispatch$1
	Pkg     string // short package name: client / state / strings ...
	Props   []string
	Safety  []string
	Attrs   map[string]string // pure, inline, trusted, arith, recovers, maypanic ...
	Clauses []*Clause
	Loops   map[int]*LoopSpec
	Params  []Param // only for trusted external functions (names for the arguments)
	Results []Param
	File    string
	Line    int
	Trusted bool
}

// ImplSpec: under the listed properties, calls through the interface are
// verified against the contracts of the concrete type (whose dynamic type is
// assumed; a closure clause pins down where the interface value comes from).
type ImplSpec struct {
	Concrete string // "state.(*stateTracker)"
	Tags     []string
}

type SpecFn struct {
	Pkg     string // short name of the package whose contract file defines it
	Name    string
	Params  []Param
	Ret     string
	Body    SExpr // nil for uninterpreted
	IsPred  bool
	File    string
	Line    int
	Trusted bool
}

type Axiom struct {
	Name    string
	Expr    SExpr
	Text    string
	IsLemma bool
	Tags    []string
	File    string
	Line    int
	Trusted bool
	Uses    []string // lemma: which axioms/lemmas to use (default: all axioms)
}

type ClosureSpec struct {
	Text string
	File string
	Line int
}

type SpecDB struct {
	Impls      map[string]ImplSpec // interface method prefix "state.(Tracker)" -> concrete receiver
	Closures   []*ClosureSpec
	ChanNonNil map[string][]string  // "Type.field" -> tags: values travelling on this channel are non-nil
	Funcs      map[string]*FuncSpec // key: pkg + "." + Key
	SpecFns    map[string]*SpecFn
	Axioms     []*Axiom
	Guarded    map[string]string // "pkg.Type.field" -> lock expression text
	Order      []string
	Ghosts     map[string]string // ghost global name ($now) -> type
	Traces     map[string]bool   // named ghost traces: "$tr", "$wire", ...
}

// IsTrace reports whether name is a declared trace array ($wire).
func (db *SpecDB) IsTrace(name string) bool { return db.Traces[name] }

// IsTraceLen reports whether name is the length of a declared trace ($wirelen).
func (db *SpecDB) IsTraceLen(name string) (string, bool) {
	if strings.HasSuffix(name, "len") && db.Traces[strings.TrimSuffix(name, "len")] {
		return strings.TrimSuffix(name, "len"), true
	}
	return "", false
}

func NewSpecDB() *SpecDB {
	return &SpecDB{Funcs: map[string]*FuncSpec{}, SpecFns: map[string]*SpecFn{}, Guarded: map[string]string{}, Ghosts: map[string]string{}, Traces: map[string]bool{"$tr": true, "$log": true}}
}

var clauseKeywords = map[string]bool{
	"func": true, "end": true, "pred": true, "specfn": true, "axiom": true, "lemma": true,
	"property": true, "safety": true, "attr": true, "let": true, "requires": true, "ensures": true,
	"modifies": true, "loop": true, "invariant": true, "decreases": true, "ghost": true, "step": true,
	"package": true, "guarded_by": true, "params": true, "results": true, "init": true, "assert": true,
	"emits": true, "callpre": true, "maintains": true, "ghostvar": true, "trace": true, "closure": true, "bind": true, "chan_nonnil": true, "hint": true, "impl": true,
}

// LoadSpecFile reads //@ lines (or all lines for .spec files).
func (db *SpecDB) LoadSpecFile(path string, trusted bool) error {
	data, err := os.ReadFile(path)
	if err != nil {
		return err
	}
	isGo := strings.HasSuffix(path, ".go")
	type rawLine struct {
		text string
		line int
	}
	var lines []rawLine
	for i, l := range strings.Split(string(data), "\n") {
		t := strings.TrimSpace(l)
		if isGo {
			if strings.HasPrefix(t, "//@") {
				t = strings.TrimSpace(t[3:])
			} else if strings.HasPrefix(t, "// @") {
				t = strings.TrimSpace(t[4:])
			} else {
				continue
			}
		} else {
			if strings.HasPrefix(t, "#") {
				continue
			}
		}
		if t == "" {
			continue
		}
		// strip trailing // comments that are not inside a string
		t = stripComment(t)
		if t == "" {
			continue
		}
		lines = append(lines, rawLine{t, i + 1})
	}
	// group into clauses: a line whose first word is a keyword starts a clause
	type rawClause struct {
		kw   string
		text string
		line int
	}
	var clauses []rawClause
	for _, l := range lines {
		first := l.text
		if i := strings.IndexAny(first, " \t["); i >= 0 {
			first = first[:i]
		}
		first = strings.TrimSuffix(first, ":")
		if clauseKeywords[first] {
			clauses = append(clauses, rawClause{first, strings.TrimSpace(l.text[len(first):]), l.line})
		} else {
			if len(clauses) == 0 {
				return fmt.Errorf("%s:%d: continuation line without clause: %s", path, l.line, l.text)
			}
			clauses[len(clauses)-1].text += " " + l.text
		}
	}
	pkg := ""
	var cur *FuncSpec
	var curLoop *LoopSpec
	for _, c := range clauses {
		fail := func(f string, a ...interface{}) error {
			return fmt.Errorf("%s:%d: %s", path, c.line, fmt.Sprintf(f, a...))
		}
		text := strings.TrimSpace(strings.TrimPrefix(c.text, ":"))
		switch c.kw {
		case "package":
			pkg = text
		case "func":
			if cur != nil {
				return fail("nested func (missing end?)")
			}
			cur = &FuncSpec{Key: text, Pkg: pkg, Attrs: map[string]string{}, Loops: map[int]*LoopSpec{}, File: path, Line: c.line, Trusted: trusted}
			curLoop = nil
			full := pkg + "." + text
			if _, dup := db.Funcs[full]; dup {
				return fail("duplicate contract for %s", full)
			}
			db.Funcs[full] = cur
			db.Order = append(db.Order, full)
		case "end":
			cur = nil
			curLoop = nil
		case "pred", "specfn":
			sf, err := parseSpecFnDecl(text, c.kw == "pred")
			if err != nil {
				return fail("%v", err)
			}
			sf.File, sf.Line, sf.Trusted = path, c.line, trusted
			sf.Pkg = pkg
			if _, dup := db.SpecFns[sf.Name]; dup {
				return fail("duplicate spec function %s", sf.Name)
			}
			db.SpecFns[sf.Name] = sf
		case "axiom", "lemma":
			tags, rest := parseTags(text)
			i := strings.Index(rest, ":")
			if i < 0 {
				return fail("axiom needs 'name: expr'")
			}
			name := strings.TrimSpace(rest[:i])
			body := strings.TrimSpace(rest[i+1:])
			var uses []string
			if j := strings.Index(name, " uses "); j >= 0 {
				for _, u := range strings.Split(name[j+6:], ",") {
					uses = append(uses, strings.TrimSpace(u))
				}
				name = strings.TrimSpace(name[:j])
			}
			e, err := ParseSpecExpr(body)
			if err != nil {
				return fail("%v", err)
			}
			db.Axioms = append(db.Axioms, &Axiom{Name: name, Expr: e, Text: body, IsLemma: c.kw == "lemma", Tags: tags, File: path, Line: c.line, Trusted: trusted, Uses: uses})
		case "trace":
			if !strings.HasPrefix(text, "$") {
				return fail("trace $name")
			}
			db.Traces[strings.TrimSpace(text)] = true
		case "chan_nonnil":
			tags, rest := parseTags(text)
			if db.ChanNonNil == nil {
				db.ChanNonNil = map[string][]string{}
			}
			db.ChanNonNil[strings.TrimSpace(rest)] = tags
		case "impl":
			// impl [tags] pkg.(Iface) pkg.(*Concrete)
			tags, rest := parseTags(text)
			parts := strings.Fields(rest)
			if len(parts) != 2 {
				return fail("impl [tags] pkg.(Iface) pkg.(*Concrete)")
			}
			if db.Impls == nil {
				db.Impls = map[string]ImplSpec{}
			}
			db.Impls[parts[0]] = ImplSpec{Concrete: parts[1], Tags: tags}
		case "closure":
			db.Closures = append(db.Closures, &ClosureSpec{Text: text, File: path, Line: c.line})
		case "ghostvar":
			parts := strings.Fields(text)
			if len(parts) != 2 || !strings.HasPrefix(parts[0], "$") {
				return fail("ghostvar $name type")
			}
			db.Ghosts[parts[0]] = parts[1]
		case "guarded_by":
			// guarded_by Type.field lockexpr
			parts := strings.Fields(text)
			if len(parts) != 2 {
				return fail("guarded_by Type.field lock")
			}
			db.Guarded[pkg+"."+parts[0]] = parts[1]
		default:
			if cur == nil {
				return fail("clause %s outside func", c.kw)
			}
			switch c.kw {
			case "property":
				cur.Props = splitList(text)
			case "safety":
				cur.Safety = splitList(text)
			case "attr":
				for _, a := range splitList(text) {
					k, v := a, "true"
					if i := strings.Index(a, "="); i >= 0 {
						k, v = a[:i], a[i+1:]
					}
					cur.Attrs[k] = v
				}
			case "params":
				ps, err := parseParams(text)
				if err != nil {
					return fail("%v", err)
				}
				cur.Params = ps
			case "results":
				ps, err := parseParams(text)
				if err != nil {
					return fail("%v", err)
				}
				cur.Results = ps
			case "loop":
				n, err := strconv.Atoi(strings.TrimSuffix(strings.TrimSpace(text), ":"))
				if err != nil {
					return fail("loop ordinal: %v", err)
				}
				curLoop = &LoopSpec{Ordinal: n}
				cur.Loops[n] = curLoop
			default:
				cl := &Clause{Kind: c.kw, Text: text, Line: c.line, File: path}
				cl.Tags, text = parseTags(text)
				cl.Text = text
				switch c.kw {
				case "let", "step", "init":
					i := strings.Index(text, ":=")
					if i < 0 {
						return fail("%s needs name := expr", c.kw)
					}
					cl.Name = strings.TrimSpace(text[:i])
					e, err := ParseSpecExpr(text[i+2:])
					if err != nil {
						return fail("%v", err)
					}
					cl.Expr = e
				case "bind":
					// bind name type := call <callee key> <n>
					i := strings.Index(text, ":=")
					if i < 0 {
						return fail("bind name type := call key n")
					}
					parts := strings.Fields(text[:i])
					rhs := strings.Fields(text[i+2:])
					if len(parts) != 2 || len(rhs) < 3 || (rhs[0] != "call" && rhs[0] != "after" && rhs[0] != "arg" && rhs[0] != "before" && rhs[0] != "ghost") {
						return fail("bind name type := call key n  |  after key n expr  |  arg key n i")
					}
					cl.Name, cl.Type = parts[0], parts[1]
					cl.Text = rhs[1] + " " + rhs[2]
					if rhs[0] == "before" {
						cl.Type = "before:" + cl.Type
					}
					if rhs[0] == "after" || rhs[0] == "before" {
						// "after KEY N resultI": the call's i-th result
						if len(rhs) < 4 {
							return fail("bind name type := after key n expr")
						}
						e, err := ParseSpecExpr(strings.Join(rhs[3:], " "))
						if err != nil {
							return fail("%v", err)
						}
						cl.Expr = e
					} else if rhs[0] == "ghost" {
						// bind x T := ghost KEY N NAME : the callee's ghost output NAME
						if len(rhs) != 4 {
							return fail("bind name type := ghost key n name")
						}
						cl.Exprs = []SExpr{&SIdent{rhs[3]}}
					} else if rhs[0] == "arg" {
						if len(rhs) != 4 {
							return fail("bind name type := arg key n i")
						}
						cl.Exprs = []SExpr{&SIntLit{rhs[3]}}
					} else if len(rhs) != 3 {
						return fail("bind name type := call key n")
					}
				case "callpre":
					// callpre KEY N expr : obligation checked (and then assumed) in the state
					// just before the n-th call of KEY (arguments are arg0..)
					parts := strings.Fields(text)
					if len(parts) < 3 {
						return fail("callpre key n expr")
					}
					cl.Name = parts[0] + " " + parts[1]
					e, err := ParseSpecExpr(strings.Join(parts[2:], " "))
					if err != nil {
						return fail("%v", err)
					}
					cl.Expr = e
				case "assert":
					// assert KEY N expr : obligation checked right after the n-th call of KEY
					// (the call's arguments are arg0.., its results result / result0..)
					parts := strings.Fields(text)
					if len(parts) < 3 {
						return fail("assert key n expr")
					}
					cl.Name = parts[0] + " " + parts[1]
					e, err := ParseSpecExpr(strings.Join(parts[2:], " "))
					if err != nil {
						return fail("%v", err)
					}
					cl.Expr = e
				case "ghost":
					// ghost name type [:= init]
					rest := text
					var initText string
					if i := strings.Index(text, ":="); i >= 0 {
						rest, initText = text[:i], text[i+2:]
					}
					parts := strings.Fields(rest)
					if len(parts) != 2 {
						return fail("ghost name type [:= init]")
					}
					cl.Name, cl.Type = parts[0], parts[1]
					if initText != "" {
						e, err := ParseSpecExpr(initText)
						if err != nil {
							return fail("%v", err)
						}
						cl.Expr = e
					}
				case "modifies", "hint":
					for _, part := range splitTop(text) {
						e, err := ParseSpecExpr(part)
						if err != nil {
							return fail("%v", err)
						}
						cl.Exprs = append(cl.Exprs, e)
					}
				default:
					e, err := ParseSpecExpr(text)
					if err != nil {
						return fail("%v", err)
					}
					cl.Expr = e
				}
				if curLoop != nil && (c.kw == "invariant" || c.kw == "decreases" || c.kw == "ghost" || c.kw == "step" || c.kw == "init") {
					curLoop.Clauses = append(curLoop.Clauses, cl)
				} else {
					if c.kw == "invariant" || c.kw == "decreases" || c.kw == "step" || c.kw == "init" {
						return fail("%s outside loop", c.kw)
					}
					cur.Clauses = append(cur.Clauses, cl)
					// a function-level clause after loops ends the loop section
					if c.kw != "ghost" {
						curLoop = nil
					}
				}
			}
		}
	}
	if cur != nil {
		return fmt.Errorf("%s: missing end for func %s", path, cur.Key)
	}
	return nil
}

func stripComment(t string) string {
	inStr, inChr := false, false
	for i := 0; i < len(t); i++ {
		c := t[i]
		switch {
		case c == '\\' && (inStr || inChr):
			i++
		case c == '"' && !inChr:
			inStr = !inStr
		case c == '\'' && !inStr:
			inChr = !inChr
		case c == '/' && !inStr && !inChr && i+1 < len(t) && t[i+1] == '/':
			return strings.TrimSpace(t[:i])
		}
	}
	return t
}

func parseTags(text string) ([]string, string) {
	text = strings.TrimSpace(text)
	if strings.HasPrefix(text, "[") {
		if i := strings.Index(text, "]"); i > 0 {
			inner := text[1:i]
			ok := true
			for _, t := range splitList(inner) {
				if len(t) < 3 || t[0] != 'C' {
					ok = false
				}
			}
			if ok {
				return splitList(inner), strings.TrimSpace(text[i+1:])
			}
		}
	}
	return nil, text
}

func splitList(s string) []string {
	var out []string
	for _, p := range strings.FieldsFunc(s, func(r rune) bool { return r == ',' || r == ' ' }) {
		if p != "" {
			out = append(out, p)
		}
	}
	return out
}

// splitTop splits on commas not nested in brackets.
func splitTop(s string) []string {
	var out []string
	depth := 0
	start := 0
	for i := 0; i < len(s); i++ {
		switch s[i] {
		case '(', '[':
			depth++
		case ')', ']':
			depth--
		case ',':
			if depth == 0 {
				out = append(out, strings.TrimSpace(s[start:i]))
				start = i + 1
			}
		}
	}
	if strings.TrimSpace(s[start:]) != "" {
		out = append(out, strings.TrimSpace(s[start:]))
	}
	return out
}

func parseParams(s string) ([]Param, error) {
	var out []Param
	for _, part := range splitTop(s) {
		f := strings.Fields(part)
		if len(f) != 2 {
			return nil, fmt.Errorf("bad parameter %q", part)
		}
		out = append(out, Param{f[0], f[1]})
	}
	return out, nil
}

// parseSpecFnDecl parses  name(a T, b T) R [:= expr]   (R omitted for pred)
func parseSpecFnDecl(text string, isPred bool) (*SpecFn, error) {
	i := strings.Index(text, "(")
	if i < 0 {
		return nil, fmt.Errorf("spec function needs parameter list: %s", text)
	}
	name := strings.TrimSpace(text[:i])
	depth := 0
	j := i
	for ; j < len(text); j++ {
		if text[j] == '(' {
			depth++
		} else if text[j] == ')' {
			depth--
			if depth == 0 {
				break
			}
		}
	}
	ps, err := parseParams(text[i+1 : j])
	if err != nil {
		return nil, err
	}
	rest := strings.TrimSpace(text[j+1:])
	sf := &SpecFn{Name: name, Params: ps, IsPred: isPred, Ret: "bool"}
	body := ""
	if k := strings.Index(rest, ":="); k >= 0 {
		body = strings.TrimSpace(rest[k+2:])
		rest = strings.TrimSpace(rest[:k])
	}
	if !isPred {
		if rest == "" {
			return nil, fmt.Errorf("specfn %s needs a result type", name)
		}
		sf.Ret = rest
	}
	if body != "" {
		e, err := ParseSpecExpr(body)
		if err != nil {
			return nil, err
		}
		sf.Body = e
	}
	return sf, nil
}
