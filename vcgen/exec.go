package main

// Symbolic executor over go/ssa (NaiveForm) producing named proof
// obligations. Passive form: every SSA value and every merged state component
// is a fresh SMT constant with a (guarded) defining axiom; loops are cut at
// their headers by invariants; calls are replaced by the callee's contract.

import (
	"fmt"
	"go/token"
	"go/types"
	"sort"
	"strings"
	"sync"

	"golang.org/x/tools/go/ssa"
)

type Loc struct {
	Kind   int
	Alloc  *ssa.Alloc
	Obj    *Term // field: object ref ; elem: base ref
	Heap   string
	Ty     types.Type // type of the stored value
	Idx    *Term      // elem: absolute index in the backing array
	Global *ssa.Global
	Owner  types.Type // field: the struct type owning the field
	Field  string
	Free   *ssa.FreeVar
}

const (
	locCell = iota
	locField
	locElem
	locGlobal
	locFree
)

type Val struct {
	T   *Term
	Fs  []Val
	Ty  types.Type
	Loc *Loc
}

func (v Val) String() string {
	if v.T != nil {
		return v.T.String()
	}
	if v.Loc != nil {
		return fmt.Sprintf("loc(%d)", v.Loc.Kind)
	}
	return fmt.Sprintf("tuple%d", len(v.Fs))
}

type State struct {
	cells map[*ssa.Alloc]Val
	heap  map[string]*Term
	epoch int // identifies the latest "modifies heap" havoc of this lineage (0: function entry)
}

func newState() *State {
	return &State{cells: map[*ssa.Alloc]Val{}, heap: map[string]*Term{}}
}

func (s *State) clone() *State {
	n := newState()
	for k, v := range s.cells {
		n.cells[k] = v
	}
	for k, v := range s.heap {
		n.heap[k] = v
	}
	n.epoch = s.epoch
	return n
}

type Obligation struct {
	Name    string
	Tags    []string
	Func    string
	Kind    string
	Pos     string
	Text    string // human-readable description (clause text, instruction)
	NAxioms int    // number of ex.axioms visible
	Path    *Term
	Goal    *Term
	ex      *Exec
	Bounded int // >0: downstream of a loop unrolled K times
	Unsupp  string
	IsCover bool
	Inputs  []ModelInput
	Hints   []*Term // user-supplied instantiation terms (contract clause "hint")
}

type ModelInput struct {
	Name string
	Ty   types.Type
	V    Val
}

type deferred struct {
	instr *ssa.Defer
	guard *Term
	args  []Val
	fnval Val
}

type loopInfo struct {
	header  *ssa.BasicBlock
	blocks  map[*ssa.BasicBlock]bool
	backs   []*ssa.BasicBlock // sources of back edges
	ordinal int
	spec    *LoopSpec
	// at header after havoc:
	headState  *State
	ghosts     map[string]Val
	measure    *Term
	headReach  *Term
	modCells   map[*ssa.Alloc]bool
	modHeaps   map[string]bool
	lateHavoc  map[string]bool
	havocAll   bool
	entryState *State
}

type Exec struct {
	V    *Verifier
	fn   *ssa.Function
	spec *FuncSpec
	D    *Decls
	pkg  *types.Package

	axioms []*Term
	obls   []*Obligation

	vals     map[ssa.Value]Val
	outState map[*ssa.BasicBlock]*State
	reach    map[*ssa.BasicBlock]*Term
	init     *State
	cur      *State
	pc       *Term
	curBlock *ssa.BasicBlock

	heapSort map[string]Sort
	params   map[string]Val // entry values of parameters (and receiver)
	paramTy  map[string]types.Type
	results  []Val
	lets     map[string]Val
	ghosts   map[string]Val
	ghostTy  map[string]types.Type

	loops     map[*ssa.BasicBlock]*loopInfo
	loopOf    map[*ssa.BasicBlock][]*loopInfo
	curLoops  []*loopInfo
	defers    []deferred
	counters  map[string]int
	poisoned  string
	bounded   int
	lits      map[string]*Term
	closures  map[ssa.Value][]Val
	iterMaps  map[ssa.Value]iterInfo
	localName map[string]*ssa.Alloc
	safety    bool
	arithChk  bool
	protected *Term // ghost: a recovering deferred call is installed
	returns   int
	globalAx  []*Term
	usedSpecs map[string]bool
	usedAx    map[string]bool

	noInvLoops    []int
	needConcat    bool
	needSid       bool
	needChr       bool
	needCard      bool
	axMu          sync.Mutex
	knownPath     *Term
	noGuardShortcut bool
	knownHyps     map[string]*Term // quantified conjuncts asserted as hypotheses of the obligation being split -> guard
	closureFn     map[ssa.Value]*ssa.Function
	iterName      map[ssa.Value]string
	iterLoop      map[string]*ssa.BasicBlock
	freeVarVals   map[*ssa.FreeVar]Val
	ifaceSrc      map[string]ifaceOrigin
	ifacePayload  map[string]Val
	usedSpecFns   map[string]bool
	keyTerms      []*Term
	sawMayPanic   bool
	directRecover bool
	dbAx          []dbAxiom
	constArrs     map[string]*Term
	rawElemTy     map[string]types.Type
	logicalCache  map[string]Val
	hintTerms     []*Term
	inCalleeOnly  bool
	epochCounter  int
	pendingBinds  []*Clause
	callCount     map[string]int
	callOrd       map[*ssa.CallCommon]int
	concatPrefix  map[string]string
	globalFacts   []*Term // ground facts valid in every state (literal bytes, concat consequences)
}

type ifaceOrigin struct {
	v  Val
	ty types.Type
}

type iterInfo struct {
	m      Val
	name   string // heap name of the visited set
	isStr  bool
	keyTy  types.Type
	valTy  types.Type
	strArg bool
}

func (ex *Exec) fail(format string, a ...interface{}) {
	msg := fmt.Sprintf(format, a...)
	if ex.poisoned == "" {
		ex.poisoned = msg
	}
}

func (ex *Exec) assume(t *Term) {
	if t == True || t == nil {
		return
	}
	ex.axioms = append(ex.axioms, t)
}

// assumeHere adds a fact that holds whenever control is at the current point.
func (ex *Exec) assumeHere(t *Term) {
	ex.assume(Imp(ex.pc, ex.skolemPos(t)))
}

// skolemPos replaces existential quantifiers in positive, non-nested
// positions of an assumed formula by fresh constants.
func (ex *Exec) skolemPos(t *Term) *Term {
	if t.IsSym {
		return t
	}
	switch t.Op {
	case "and":
		var as []*Term
		for _, a := range t.Args {
			as = append(as, ex.skolemPos(a))
		}
		return And(as...)
	case "=>":
		return Imp(t.Args[0], ex.skolemPos(t.Args[1]))
	case "exists":
		m := map[string]*Term{}
		for _, b := range t.Bound {
			m[b.Name] = ex.D.Fresh("ex."+strings.SplitN(b.Name, "!", 2)[0], b.S)
		}
		return ex.skolemPos(t.Args[0].Subst(m))
	}
	return t
}

func (ex *Exec) nextOrd(kind string) int {
	ex.counters[kind]++
	return ex.counters[kind]
}

func (ex *Exec) posOf(p token.Pos) string {
	if !p.IsValid() {
		return ""
	}
	pos := ex.V.fset.Position(p)
	f := pos.Filename
	if i := strings.Index(f, "/repo/"); i >= 0 {
		f = f[i+6:]
	}
	return fmt.Sprintf("%s:%d", f, pos.Line)
}

// oblige records an obligation "goal holds whenever control is here".
func (ex *Exec) oblige(kind string, tags []string, goal *Term, pos token.Pos, text string) {
	ex.obligeUnder(ex.pc, kind, tags, goal, pos, text)
}

func (ex *Exec) obligeUnder(path *Term, kind string, tags []string, goal *Term, pos token.Pos, text string) {
	if goal == True {
		// still count it: trivially discharged obligations are part of the evidence
	}
	name := fmt.Sprintf("%s/%s#%d", ex.fnKey(), kind, ex.nextOrd(kind))
	ex.obls = append(ex.obls, &Obligation{
		Name: name, Tags: tags, Func: ex.fnKey(), Kind: kind, Pos: ex.posOf(pos), Text: text,
		NAxioms: len(ex.axioms), Path: path, Goal: goal, ex: ex, Bounded: ex.bounded, Unsupp: ex.poisoned,
	})
}

// panicCheck: cond must hold or the program panics here.
func (ex *Exec) panicCheck(kind string, cond *Term, pos token.Pos, text string) {
	if ex.safety {
		ex.oblige("panic:"+kind, ex.spec.Safety, cond, pos, text)
	}
	ex.assumeHere(cond)
}

func (ex *Exec) fnKey() string {
	return ex.fn.Pkg.Pkg.Name() + "." + fnKeyOf(ex.fn)
}

func fnKeyOf(fn *ssa.Function) string {
	// ParseLine ; (*Conn).rateLimit ; (*hSet).dispatch$1
	name := fn.Name()
	if fn.Parent() != nil {
		return fnKeyOf(fn.Parent()) + "$" + name[strings.LastIndex(name, "$")+1:]
	}
	if recv := fn.Signature.Recv(); recv != nil {
		t := recv.Type()
		ptr := ""
		if p, ok := t.(*types.Pointer); ok {
			t = p.Elem()
			ptr = "*"
		}
		tn := t.String()
		if n, ok := t.(*types.Named); ok {
			tn = n.Obj().Name()
		}
		if ptr != "" {
			return "(*" + tn + ")." + name
		}
		return "(" + tn + ")." + name
	}
	return name
}

// ---------------------------------------------------------------------------
// heap access

func (ex *Exec) heapInit(name string, s Sort) *Term {
	if old, ok := ex.heapSort[name]; ok && old != s {
		panic(fmt.Sprintf("heap %s sort %s vs %s", name, old, s))
	}
	ex.heapSort[name] = s
	return ex.D.Const(name+"@pre", s)
}

func (ex *Exec) getHeap(st *State, name string, s Sort) *Term {
	if t, ok := st.heap[name]; ok {
		return t
	}
	if st.epoch == 0 || strings.HasPrefix(name, "$") {
		return ex.heapInit(name, s)
	}
	// never touched since the last whole-heap havoc of this lineage
	if old, ok := ex.heapSort[name]; ok && old != s {
		panic(fmt.Sprintf("heap %s sort %s vs %s", name, old, s))
	}
	ex.heapSort[name] = s
	return ex.D.Const(fmt.Sprintf("%s@e%d", name, st.epoch), s)
}

// havocAll: every (non-ghost) heap component takes an arbitrary new value.
func (ex *Exec) havocAll(st *State) {
	ex.epochCounter++
	st.epoch = ex.epochCounter
	for k := range st.heap {
		if !strings.HasPrefix(k, "$") {
			delete(st.heap, k)
		}
	}
}

func (ex *Exec) setHeap(st *State, name string, t *Term) {
	if _, ok := ex.heapSort[name]; !ok {
		ex.heapSort[name] = t.S
	}
	st.heap[name] = t
}

// name a possibly large term by a fresh constant
func (ex *Exec) named(hint string, t *Term) *Term {
	if t.Size() <= 6 {
		return t
	}
	c := ex.D.Fresh(hint, t.S)
	ex.assume(Eq(c, t))
	return c
}

func (ex *Exec) emptyStr() *Term {
	return ex.strLit("")
}

// strLit returns the Str term of a literal; its bytes are fixed by axioms.
func (ex *Exec) strLit(s string) *Term {
	if t, ok := ex.lits[s]; ok {
		return t
	}
	arr := ex.D.Fresh("lit", ArrS(SInt, SInt))
	t := MkStr(arr, IntLit(0), IntLit(int64(len(s))))
	for i := 0; i < len(s); i++ {
		ex.axioms = append(ex.axioms, Eq(Select(arr, IntLit(int64(i))), IntLit(int64(s[i]))))
	}
	ex.lits[s] = t
	return t
}

// litOf reports whether t is a literal string term and returns its value.
func (ex *Exec) litOf(t *Term) (string, bool) {
	for s, l := range ex.lits {
		if l == t {
			return s, true
		}
	}
	return "", false
}

func (ex *Exec) strEq(a, b *Term) *Term {
	if a == b {
		return True
	}
	if s, ok := ex.litOf(b); ok {
		return ex.strEqLit(a, s)
	}
	if s, ok := ex.litOf(a); ok {
		return ex.strEqLit(b, s)
	}
	return StrEq(a, b)
}

func (ex *Exec) strEqLit(a *Term, s string) *Term {
	if s2, ok := ex.litOf(a); ok {
		return BoolLit(s == s2)
	}
	cs := []*Term{Eq(SLen(a), IntLit(int64(len(s))))}
	for i := 0; i < len(s); i++ {
		cs = append(cs, Eq(SAt(a, IntLit(int64(i))), IntLit(int64(s[i]))))
	}
	return And(cs...)
}

// wfStr assumes well-formedness of a string value: len >= 0 and bytes in 0..255.
func (ex *Exec) wfStr(s *Term) {
	// bytes are constrained to 0..255 where they are read (byteRange);
	// assumption: no string is longer than 2^32 bytes
	ex.assume(And(Ge(SLen(s), IntLit(0)), Le(SLen(s), IntLit(4294967296))))
}

// byteRange: a byte read from a string is in 0..255.
func (ex *Exec) byteRange(b *Term) {
	ex.assume(And(Le(IntLit(0), b), Le(b, IntLit(255))))
}

func (ex *Exec) freshVal(hint string, t types.Type) Val {
	if tup, ok := t.(*types.Tuple); ok {
		v := Val{Ty: t}
		for i := 0; i < tup.Len(); i++ {
			v.Fs = append(v.Fs, ex.freshVal(fmt.Sprintf("%s.%d", hint, i), tup.At(i).Type()))
		}
		return v
	}
	if isStructVal(t) {
		st := t.Underlying().(*types.Struct)
		v := Val{Ty: t}
		for i := 0; i < st.NumFields(); i++ {
			v.Fs = append(v.Fs, ex.freshVal(hint+"."+st.Field(i).Name(), st.Field(i).Type()))
		}
		return v
	}
	s := sortOf(t)
	if strings.HasPrefix(string(s), "UNSUPPORTED") {
		ex.fail("unsupported type %s", t)
		s = SInt
	}
	c := ex.D.Fresh(hint, s)
	ex.wfVal(c, t)
	return Val{T: c, Ty: t}
}

// wfVal assumes the type invariant of a value of Go type t.
func (ex *Exec) wfVal(c *Term, t types.Type) {
	switch c.S {
	case SStr:
		ex.wfStr(c)
	case SSlice:
		ex.assume(And(Ge(SlLen(c), IntLit(0)), Ge(SlCap(c), SlLen(c)), Ge(SlOff(c), IntLit(0)), Ge(SlBase(c), IntLit(0)),
			Imp(Eq(SlBase(c), IntLit(0)), Eq(SlCap(c), IntLit(0)))))
	case SInt:
		if lo, hi, ok := intRange(t); ok {
			ex.assume(And(Le(BigLit(lo), c), Le(c, BigLit(hi))))
		} else if _, isPtr := t.Underlying().(*types.Pointer); isPtr {
			ex.assume(Ge(c, IntLit(0)))
		} else {
			switch t.Underlying().(type) {
			case *types.Map, *types.Chan, *types.Interface, *types.Signature:
				ex.assume(Ge(c, IntLit(0)))
			}
		}
	}
}

// allocated: refs obtained from the pre-existing world are below the
// allocation counter of that moment.
func (ex *Exec) assumeAllocated(c *Term, t types.Type, st *State) {
	if c.S == SInt {
		ex.typedRef(c, t, st)
	}
	switch c.S {
	case SInt:
		switch t.Underlying().(type) {
		case *types.Pointer, *types.Map, *types.Chan:
			ex.assume(Lt(c, ex.getHeap(st, "$nextref", SInt)))
		}
	case SSlice:
		ex.assume(Lt(SlBase(c), ex.getHeap(st, "$nextref", SInt)))
	}
}

// ---------------------------------------------------------------------------
// locations

func (ex *Exec) load(st *State, l *Loc) Val {
	switch l.Kind {
	case locCell:
		v, ok := st.cells[l.Alloc]
		if !ok {
			ex.fail("load from unknown cell %s", l.Alloc.Name())
			return ex.freshVal("undef", l.Ty)
		}
		return v
	case locField:
		if isStructVal(l.Ty) {
			panic("struct-valued field load should use sub-object")
		}
		s := sortOf(l.Ty)
		h := ex.getHeap(st, l.Heap, ArrS(SInt, s))
		return Val{T: Select(h, l.Obj), Ty: l.Ty}
	case locElem:
		s := sortOf(l.Ty)
		h := ex.getHeap(st, heapArrName(l.Ty), ArrS(SInt, ArrS(SInt, s)))
		return Val{T: Select(Select(h, l.Obj), l.Idx), Ty: l.Ty}
	case locGlobal:
		s := sortOf(l.Ty)
		return Val{T: ex.getHeap(st, "G."+l.Global.Pkg.Pkg.Name()+"."+l.Global.Name(), s), Ty: l.Ty}
	}
	panic("load")
}

func (ex *Exec) store(st *State, l *Loc, v Val) {
	switch l.Kind {
	case locCell:
		st.cells[l.Alloc] = v
	case locField:
		s := sortOf(l.Ty)
		if v.T == nil {
			ex.fail("store of non-scalar into field %s", l.Heap)
			return
		}
		h := ex.getHeap(st, l.Heap, ArrS(SInt, s))
		ex.setHeap(st, l.Heap, ex.named(l.Heap, Store(h, l.Obj, v.T)))
	case locElem:
		s := sortOf(l.Ty)
		name := heapArrName(l.Ty)
		h := ex.getHeap(st, name, ArrS(SInt, ArrS(SInt, s)))
		if v.T == nil {
			ex.fail("store of non-scalar into element")
			return
		}
		ex.setHeap(st, name, ex.named(name, Store(h, l.Obj, Store(Select(h, l.Obj), l.Idx, v.T))))
	case locGlobal:
		ex.setHeap(st, "G."+l.Global.Pkg.Pkg.Name()+"."+l.Global.Name(), v.T)
	}
}

// loadStruct reads a whole struct value (field-wise) from the object at ref.
func (ex *Exec) loadStruct(st *State, ref *Term, t types.Type) Val {
	stt := t.Underlying().(*types.Struct)
	v := Val{Ty: t}
	for i := 0; i < stt.NumFields(); i++ {
		f := stt.Field(i)
		if isStructVal(f.Type()) {
			v.Fs = append(v.Fs, ex.loadStruct(st, ex.subobj(ref, t, i), f.Type()))
		} else {
			v.Fs = append(v.Fs, ex.load(st, &Loc{Kind: locField, Obj: ref, Heap: heapFieldName(t, f.Name()), Ty: f.Type()}))
		}
	}
	return v
}

func (ex *Exec) storeStruct(st *State, ref *Term, t types.Type, v Val) {
	stt := t.Underlying().(*types.Struct)
	for i := 0; i < stt.NumFields(); i++ {
		f := stt.Field(i)
		if isStructVal(f.Type()) {
			ex.storeStruct(st, ex.subobj(ref, t, i), f.Type(), v.Fs[i])
		} else {
			ex.store(st, &Loc{Kind: locField, Obj: ref, Heap: heapFieldName(t, f.Name()), Ty: f.Type()}, v.Fs[i])
		}
	}
}

func (ex *Exec) subobj(ref *Term, t types.Type, field int) *Term {
	return ex.D.Fn("subobj", SInt, ref, IntLit(int64(ex.V.fieldID(structName(t), field))))
}

// tagType records the dynamic (struct) type of a freshly allocated object in
// the ghost map $typeof, so that contracts can state heap-wide type invariants
// ("every nick object has non-nil maps") with isa(x, "T").
func (ex *Exec) tagType(st *State, ref *Term, t types.Type) {
	if _, ok := t.Underlying().(*types.Struct); !ok {
		return
	}
	h := ex.getHeap(st, "$typeof", ArrS(SInt, SInt))
	ex.setHeap(st, "$typeof", Store(h, ref, IntLit(int64(ex.V.nameID("type:"+structName(t))))))
}

// typedRef: a non-nil pointer to one of goirc's struct types points to an
// object of that type.
func (ex *Exec) typedRef(c *Term, t types.Type, st *State) {
	p, ok := t.Underlying().(*types.Pointer)
	if !ok {
		return
	}
	n, ok := p.Elem().(*types.Named)
	if !ok || n.Obj().Pkg() == nil || !ex.V.isOurPkg(n.Obj().Pkg()) {
		return
	}
	if _, isStruct := n.Underlying().(*types.Struct); !isStruct {
		return
	}
	h := ex.getHeap(st, "$typeof", ArrS(SInt, SInt))
	ex.assume(Or(Eq(c, IntLit(0)), Eq(Select(h, c), IntLit(int64(ex.V.nameID("type:"+structName(p.Elem())))))))
}

// newRef allocates a fresh reference.
func (ex *Exec) newRef(st *State, hint string) *Term {
	nr := ex.getHeap(st, "$nextref", SInt)
	r := ex.D.Fresh(hint, SInt)
	ex.assume(Eq(r, nr))
	ex.assume(Gt(r, IntLit(0)))
	ex.setHeap(st, "$nextref", Add(r, IntLit(1)))
	return r
}

// zeroInit stores zero values into every field of a fresh struct object.
func (ex *Exec) zeroInit(st *State, ref *Term, t types.Type) {
	stt, ok := t.Underlying().(*types.Struct)
	if !ok {
		return
	}
	if n, ok := t.(*types.Named); ok && n.Obj().Pkg() != nil {
		switch n.Obj().Pkg().Path() {
		case "sync":
			switch n.Obj().Name() {
			case "Mutex", "RWMutex":
				h := ex.getHeap(st, "$held", ArrS(SInt, SInt))
				ex.setHeap(st, "$held", Store(h, ref, IntLit(0)))
			case "WaitGroup":
				h := ex.getHeap(st, "$wg", ArrS(SInt, SInt))
				ex.setHeap(st, "$wg", Store(h, ref, IntLit(0)))
			}
			return
		}
		if !ex.V.isOurPkg(n.Obj().Pkg()) {
			// foreign struct: only zero the exported fields (what goirc can touch)
		}
	}
	for i := 0; i < stt.NumFields(); i++ {
		f := stt.Field(i)
		if isStructVal(f.Type()) {
			ex.zeroInit(st, ex.subobj(ref, t, i), f.Type())
			continue
		}
		s := sortOf(f.Type())
		if strings.HasPrefix(string(s), "UNSUPPORTED") || s == "TUPLE" {
			continue
		}
		ex.store(st, &Loc{Kind: locField, Obj: ref, Heap: heapFieldName(t, f.Name()), Ty: f.Type()}, Val{T: ex.zeroOf(s), Ty: f.Type()})
	}
}

// ---------------------------------------------------------------------------
// CFG analysis

func (ex *Exec) findLoops() {
	ex.loops = map[*ssa.BasicBlock]*loopInfo{}
	ex.loopOf = map[*ssa.BasicBlock][]*loopInfo{}
	for _, b := range ex.fn.Blocks {
		for _, s := range b.Succs {
			if s.Dominates(b) {
				li := ex.loops[s]
				if li == nil {
					li = &loopInfo{header: s, blocks: map[*ssa.BasicBlock]bool{s: true}}
					ex.loops[s] = li
				}
				li.backs = append(li.backs, b)
				// natural loop
				stack := []*ssa.BasicBlock{b}
				for len(stack) > 0 {
					x := stack[len(stack)-1]
					stack = stack[:len(stack)-1]
					if li.blocks[x] {
						continue
					}
					li.blocks[x] = true
					stack = append(stack, x.Preds...)
				}
			}
		}
	}
	var hs []*ssa.BasicBlock
	for h := range ex.loops {
		hs = append(hs, h)
	}
	sort.Slice(hs, func(i, j int) bool { return hs[i].Index < hs[j].Index })
	for i, h := range hs {
		ex.loops[h].ordinal = i
		if ex.spec != nil {
			ex.loops[h].spec = ex.spec.Loops[i]
		}
	}
	for _, b := range ex.fn.Blocks {
		for _, h := range hs {
			if ex.loops[h].blocks[b] {
				ex.loopOf[b] = append(ex.loopOf[b], ex.loops[h])
			}
		}
	}
}

func (ex *Exec) isBackEdge(from, to *ssa.BasicBlock) bool {
	return to.Dominates(from)
}

func (ex *Exec) topoOrder() []*ssa.BasicBlock {
	var order []*ssa.BasicBlock
	seen := map[*ssa.BasicBlock]bool{}
	var dfs func(b *ssa.BasicBlock)
	dfs = func(b *ssa.BasicBlock) {
		seen[b] = true
		for _, s := range b.Succs {
			if !seen[s] && !ex.isBackEdge(b, s) {
				dfs(s)
			}
		}
		order = append(order, b)
	}
	dfs(ex.fn.Blocks[0])
	for i, j := 0, len(order)-1; i < j; i, j = i+1, j-1 {
		order[i], order[j] = order[j], order[i]
	}
	return order
}

// edgeCond: condition under which control goes from b (at its end) to succ.
func (ex *Exec) edgeCond(b, succ *ssa.BasicBlock) *Term {
	last := b.Instrs[len(b.Instrs)-1]
	r := ex.reach[b]
	if iff, ok := last.(*ssa.If); ok {
		c := ex.val(iff.Cond).T
		if b.Succs[0] == succ && b.Succs[1] == succ {
			return r
		}
		if b.Succs[0] == succ {
			return And(r, c)
		}
		return And(r, Not(c))
	}
	return r
}

// mergeStates builds the entry state of a block from its (forward) preds.
func (ex *Exec) mergeStates(b *ssa.BasicBlock, preds []*ssa.BasicBlock, conds []*Term) *State {
	if len(preds) == 1 {
		return ex.outState[preds[0]].clone()
	}
	res := newState()
	sameEpoch := true
	for _, p := range preds[1:] {
		if ex.outState[p].epoch != ex.outState[preds[0]].epoch {
			sameEpoch = false
		}
	}
	if sameEpoch {
		res.epoch = ex.outState[preds[0]].epoch
	} else {
		// materialise every known heap component in each predecessor so that
		// the merge below sees their (epoch-specific) values
		for name, srt := range ex.heapSort {
			if strings.HasPrefix(name, "$") {
				continue
			}
			for _, p := range preds {
				st := ex.outState[p]
				if _, ok := st.heap[name]; !ok {
					st.heap[name] = ex.getHeap(st, name, srt)
				}
			}
		}
		ex.epochCounter++
		res.epoch = ex.epochCounter
	}
	// cells
	keys := map[*ssa.Alloc]bool{}
	for _, p := range preds {
		for k := range ex.outState[p].cells {
			keys[k] = true
		}
	}
	var ks []*ssa.Alloc
	for k := range keys {
		ks = append(ks, k)
	}
	sort.Slice(ks, func(i, j int) bool {
		return ks[i].Pos() < ks[j].Pos() || (ks[i].Pos() == ks[j].Pos() && ks[i].Name() < ks[j].Name())
	})
	for _, k := range ks {
		all := true
		var vs []Val
		for _, p := range preds {
			v, ok := ex.outState[p].cells[k]
			if !ok {
				all = false
				break
			}
			vs = append(vs, v)
		}
		if !all {
			continue // dead on some path
		}
		same := true
		for _, v := range vs[1:] {
			if v.T != vs[0].T || v.Loc != vs[0].Loc {
				same = false
			}
		}
		if same {
			res.cells[k] = vs[0]
			continue
		}
		if vs[0].T == nil {
			ex.fail("merge of non-scalar cell %s", k.Comment)
			continue
		}
		c := ex.D.Fresh(cellHint(k), vs[0].T.S)
		for i, v := range vs {
			if v.T == nil {
				ex.fail("merge of non-scalar cell %s", k.Comment)
				continue
			}
			ex.assume(Imp(conds[i], Eq(c, v.T)))
		}
		res.cells[k] = Val{T: c, Ty: vs[0].Ty}
	}
	// heap
	hk := map[string]bool{}
	for _, p := range preds {
		for k := range ex.outState[p].heap {
			hk[k] = true
		}
	}
	var hks []string
	for k := range hk {
		hks = append(hks, k)
	}
	sort.Strings(hks)
	for _, k := range hks {
		var vs []*Term
		for _, p := range preds {
			vs = append(vs, ex.getHeap(ex.outState[p], k, ex.heapSort[k]))
		}
		same := true
		for _, v := range vs[1:] {
			if v != vs[0] {
				same = false
			}
		}
		if same {
			res.heap[k] = vs[0]
			continue
		}
		c := ex.D.Fresh(k, vs[0].S)
		for i, v := range vs {
			ex.assume(Imp(conds[i], Eq(c, v)))
		}
		res.heap[k] = c
	}
	return res
}

func cellHint(a *ssa.Alloc) string {
	if a.Comment != "" {
		return a.Comment
	}
	return a.Name()
}

// ---------------------------------------------------------------------------
// main driver

func (ex *Exec) run() {
	fn := ex.fn
	if len(fn.Blocks) == 0 {
		ex.fail("function %s has no body", fn.Name())
		return
	}
	ex.findLoops()
	ex.setupEntry()
	order := ex.topoOrder()
	for _, b := range order {
		ex.execBlock(b)
	}
}

func (ex *Exec) setupEntry() {
	ex.init = newState()
	ex.cur = ex.init.clone()
	ex.pc = True
	ex.assume(Gt(ex.getHeap(ex.init, "$nextref", SInt), IntLit(0)))
	// references that are not allocated yet carry no type tag
	{
		r := BV("r!ty", SInt)
		ex.assume(Forall([]BVar{{"r!ty", SInt}}, Imp(Ge(r, ex.getHeap(ex.init, "$nextref", SInt)),
			Eq(Select(ex.getHeap(ex.init, "$typeof", ArrS(SInt, SInt)), r), IntLit(0)))))
	}
	for tr := range ex.V.db.Traces {
		ex.noteHeap(tr, ArrS(SInt, SEvent))
		ex.assume(Ge(ex.getHeap(ex.init, tr+"len", SInt), IntLit(0)))
	}
	for _, p := range ex.fn.Params {
		v := ex.freshVal(p.Name(), p.Type())
		if v.T != nil {
			ex.assumeAllocated(v.T, p.Type(), ex.init)
		}
		ex.vals[p] = v
		ex.params[p.Name()] = v
		ex.paramTy[p.Name()] = p.Type()
	}
	for _, fv := range ex.fn.FreeVars {
		// free variables are pointers to the captured variables; model the
		// captured variable's value as a read-only parameter
		pt := fv.Type().(*types.Pointer).Elem()
		v := ex.freshVal(fv.Name(), pt)
		if v.T != nil {
			ex.assumeAllocated(v.T, pt, ex.init)
		}
		ex.params[fv.Name()] = v
		ex.paramTy[fv.Name()] = pt
		ex.vals[fv] = Val{Loc: &Loc{Kind: locFree, Free: fv, Ty: pt}, Ty: fv.Type()}
		ex.freeVarVals[fv] = v
	}
	// local names for the contract language
	for _, b := range ex.fn.Blocks {
		for _, in := range b.Instrs {
			if a, ok := in.(*ssa.Alloc); ok && a.Comment != "" {
				name := a.Comment
				if _, dup := ex.localName[name]; dup {
					for k := 2; ; k++ {
						n2 := fmt.Sprintf("%s#%d", name, k)
						if _, d := ex.localName[n2]; !d {
							name = n2
							break
						}
					}
				}
				ex.localName[name] = a
			}
		}
	}
	if ex.spec == nil {
		return
	}
	// function-level ghost variables
	for _, c := range ex.spec.Clauses {
		if c.Kind == "ghost" || c.Kind == "bind" {
			t := ex.V.specType(strings.TrimPrefix(c.Type, "before:"), ex.pkg)
			if _, declared := ex.ghosts[c.Name]; declared && c.Kind == "bind" {
				continue // initial value given by an earlier ghost clause
			}
			var v Val
			if c.Kind == "ghost" && c.Expr != nil {
				v = ex.evalSpec(c.Expr, ex.envAt(ex.init, nil))
			} else {
				v = ex.freshVal("g."+c.Name, t)
			}
			v.Ty = t
			ex.ghosts[c.Name] = v
			ex.ghostTy[c.Name] = t
		}
	}
	// lets and requires, in order
	env := ex.envAt(ex.init, nil)
	env.entry = true
	for _, c := range ex.spec.Clauses {
		switch c.Kind {
		case "let":
			ex.lets[c.Name] = ex.evalSpec(c.Expr, env)
		case "requires":
			// a precondition tagged for other properties is not assumed when this
			// run checks a different one (its callers only establish it there)
			if len(c.Tags) > 0 && ex.V.prop != "" && ex.V.prop != "all" && !hasTag(c.Tags, ex.V.prop) {
				continue
			}
			v := ex.evalSpec(c.Expr, env)
			ex.assume(v.T)
		}
	}
}

func (ex *Exec) execBlock(b *ssa.BasicBlock) {
	ex.curBlock = b
	// incoming forward edges
	var preds []*ssa.BasicBlock
	var conds []*Term
	for _, p := range b.Preds {
		if ex.isBackEdge(p, b) {
			continue
		}
		if _, done := ex.outState[p]; !done {
			continue // unreachable pred
		}
		preds = append(preds, p)
		conds = append(conds, ex.edgeCond(p, b))
	}
	if b.Index == 0 {
		ex.reach[b] = True
	} else {
		if len(preds) == 0 {
			return // unreachable
		}
		r := ex.D.Fresh(fmt.Sprintf("r.b%d", b.Index), SBool)
		ex.assume(Eq(r, Or(conds...)))
		ex.reach[b] = r
		ex.cur = ex.mergeStates(b, preds, conds)
	}
	ex.pc = ex.reach[b]
	ex.curLoops = ex.loopOf[b]
	if li := ex.loops[b]; li != nil {
		ex.enterLoop(li)
	}
	for _, in := range b.Instrs {
		ex.step(in)
	}
	ex.outState[b] = ex.cur
	// back edges out of this block
	for _, s := range b.Succs {
		if ex.isBackEdge(b, s) {
			ex.backEdge(ex.loops[s], b)
		}
	}
}

func (ex *Exec) val(v ssa.Value) Val {
	if r, ok := ex.vals[v]; ok {
		return r
	}
	switch c := v.(type) {
	case *ssa.Const:
		return ex.constVal(c)
	case *ssa.Global:
		return Val{Loc: &Loc{Kind: locGlobal, Global: c, Ty: c.Type().(*types.Pointer).Elem()}, Ty: c.Type()}
	case *ssa.Function:
		return Val{T: ex.V.fnConst(ex, c), Ty: c.Type()}
	case *ssa.Builtin:
		return Val{T: IntLit(0), Ty: c.Type()}
	}
	ex.fail("use of undefined value %s (%T)", v.Name(), v)
	return ex.freshVal("undef", v.Type())
}
