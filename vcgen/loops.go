package main

import (
	"fmt"
	"go/token"
	"go/types"
	"sort"
	"strings"

	"golang.org/x/tools/go/ssa"
)

// modifiedIn computes, syntactically, which cells and heap components the
// blocks of a loop may modify. The back-edge check (checkHavocComplete)
// fails loudly if symbolic execution modified anything outside this set.
func (ex *Exec) modifiedIn(li *loopInfo) (cells map[*ssa.Alloc]bool, heaps map[string]bool) {
	cells = map[*ssa.Alloc]bool{}
	heaps = map[string]bool{}
	add := func(name string, s Sort) {
		heaps[name] = true
		ex.noteHeap(name, s)
	}
	addMap := func(mt *types.Map) {
		vs := sortOf(mt.Elem())
		add(mapDomName(mt), ArrS(SInt, ArrS(SInt, SBool)))
		add(mapValName(mt), ArrS(SInt, ArrS(SInt, vs)))
	}
	addArr := func(et types.Type) {
		es := sortOf(et)
		add(heapArrName(et), ArrS(SInt, ArrS(SInt, es)))
	}
	addTrace := func() {
		add("$tr", ArrS(SInt, SEvent))
		add("$trlen", SInt)
		add("$seq", SInt)
	}
	addAddr := func(a ssa.Value) {
		switch x := a.(type) {
		case *ssa.Alloc:
			cells[x] = true
		case *ssa.FieldAddr:
			st, named, ok := derefStruct(x.X.Type())
			if ok && !isStructVal(st.Field(x.Field).Type()) {
				add(heapFieldName(named, st.Field(x.Field).Name()), ArrS(SInt, sortOf(st.Field(x.Field).Type())))
			}
		case *ssa.IndexAddr:
			var et types.Type
			switch t := x.X.Type().Underlying().(type) {
			case *types.Slice:
				et = t.Elem()
			case *types.Pointer:
				et = t.Elem().Underlying().(*types.Array).Elem()
			}
			if et != nil {
				addArr(et)
			}
		case *ssa.Global:
			add("G."+x.Pkg.Pkg.Name()+"."+x.Name(), sortOf(x.Type().(*types.Pointer).Elem()))
		}
	}
	for b := range li.blocks {
		for _, in := range b.Instrs {
			switch x := in.(type) {
			case *ssa.Store:
				addAddr(x.Addr)
				if isStructVal(x.Val.Type()) {
					// struct copy: all fields of the type
					ex.allFieldHeaps(x.Val.Type(), heaps)
				}
			case *ssa.Alloc:
				if isStructVal(x.Type().(*types.Pointer).Elem()) || isArrayT(x.Type().(*types.Pointer).Elem()) {
					add("$nextref", SInt)
					if isStructVal(x.Type().(*types.Pointer).Elem()) {
						add("$typeof", ArrS(SInt, SInt))
					}
					ex.allFieldHeaps(x.Type().(*types.Pointer).Elem(), heaps)
					if at, ok := x.Type().(*types.Pointer).Elem().Underlying().(*types.Array); ok {
						addArr(at.Elem())
					}
				}
			case *ssa.MapUpdate:
				addMap(x.Map.Type().Underlying().(*types.Map))
			case *ssa.MakeSlice:
				add("$nextref", SInt)
				addArr(x.Type().Underlying().(*types.Slice).Elem())
			case *ssa.MakeMap:
				add("$nextref", SInt)
				addMap(x.Type().Underlying().(*types.Map))
			case *ssa.MakeChan, *ssa.MakeClosure:
				add("$nextref", SInt)
			case *ssa.Send, *ssa.Select, *ssa.Go:
				// a go statement runs nothing in this thread: only the spawn
				// event is recorded (the goroutine's own effects are covered by
				// its contract and by the concurrency axioms, DESIGN section 5.6)
				addTrace()
			case *ssa.UnOp:
				if x.Op == token.ARROW {
					addTrace()
					if _, ok := ex.V.db.Ghosts["$deadline"]; ok {
						add("$now", SInt)
					}
				}
			case *ssa.Next:
				add(ex.iterHeapName(x.Iter), ArrS(SInt, SBool))
			case *ssa.Range:
				add(ex.iterHeapName(x), ArrS(SInt, SBool))
			case *ssa.Call:
				if fn := x.Common().StaticCallee(); fn != nil && fn.Pkg != nil && strings.HasSuffix(fn.Pkg.Pkg.Path(), "goirc/logging") {
					add("$log", ArrS(SInt, SEvent))
					add("$loglen", SInt)
					add("$seq", SInt)
				}
				ex.callEffects(x.Common(), heaps)
			case *ssa.Defer:
				ex.callEffects(x.Common(), heaps)
			case *ssa.RunDefers:
				for _, b2 := range ex.fn.Blocks {
					for _, in2 := range b2.Instrs {
						if d, ok := in2.(*ssa.Defer); ok {
							ex.callEffects(d.Common(), heaps)
						}
					}
				}
			}
		}
	}
	return
}

func isArrayT(t types.Type) bool {
	_, ok := t.Underlying().(*types.Array)
	return ok
}

func (ex *Exec) allFieldHeaps(t types.Type, heaps map[string]bool) {
	st, ok := t.Underlying().(*types.Struct)
	if !ok {
		return
	}
	for i := 0; i < st.NumFields(); i++ {
		f := st.Field(i)
		if isStructVal(f.Type()) {
			ex.allFieldHeaps(f.Type(), heaps)
		} else {
			s := sortOf(f.Type())
			if strings.HasPrefix(string(s), "UNSUPPORTED") || s == "TUPLE" {
				continue
			}
			heaps[heapFieldName(t, f.Name())] = true
			ex.noteHeap(heapFieldName(t, f.Name()), ArrS(SInt, s))
		}
	}
	heaps["$held"] = true
	ex.noteHeap("$held", ArrS(SInt, SInt))
	heaps["$wg"] = true
	ex.noteHeap("$wg", ArrS(SInt, SInt))
}

// callEffects adds the heap components a call may modify, per its contract.
func (ex *Exec) callEffects(c *ssa.CallCommon, heaps map[string]bool) {
	if b, ok := c.Value.(*ssa.Builtin); ok {
		switch b.Name() {
		case "append", "copy":
			if b.Name() == "append" {
				heaps["$nextref"] = true
				ex.noteHeap("$nextref", SInt)
			}
			aet := c.Args[0].Type().Underlying().(*types.Slice).Elem()
			es := sortOf(aet)
			heaps[heapArrName(aet)] = true
			ex.noteHeap(heapArrName(aet), ArrS(SInt, ArrS(SInt, es)))
		case "delete":
			mt := c.Args[0].Type().Underlying().(*types.Map)
			vs := sortOf(mt.Elem())
			heaps[mapDomName(mt)] = true
			heaps[mapValName(mt)] = true
			ex.noteHeap(mapDomName(mt), ArrS(SInt, ArrS(SInt, SBool)))
			ex.noteHeap(mapValName(mt), ArrS(SInt, ArrS(SInt, vs)))
		case "recover":
			heaps["$panicking"] = true
			ex.noteHeap("$panicking", SBool)
		}
		return
	}
	spec, _ := ex.V.contractFor(ex, c)
	if spec == nil {
		return // reported as unsupported when executed
	}
	for _, n := range ex.V.modifiesNames(ex, spec, c) {
		heaps[n] = true
	}
}

// enterLoop is called at the loop header before its instructions.
func (ex *Exec) enterLoop(li *loopInfo) {
	entryReach := ex.pc
	if li.spec == nil {
		// no invariant: havoc everything modified; downstream obligations are
		// only as strong as what survives. No bounded unrolling is attempted
		// here; functions with such loops are reported as lacking invariants.
		li.spec = &LoopSpec{Ordinal: li.ordinal}
		ex.noInvLoops = append(ex.noInvLoops, li.ordinal)
	}
	// ghost loop variables: initial values
	li.ghosts = map[string]Val{}
	entryGhost := map[string]Val{}
	for _, c := range li.spec.Clauses {
		if c.Kind == "ghost" {
			t := ex.V.specType(c.Type, ex.pkg)
			if c.Expr == nil {
				ex.fail("loop ghost %s needs an initial value", c.Name)
				continue
			}
			v := ex.evalSpec(c.Expr, ex.envAt(ex.cur, nil))
			v.Ty = t
			entryGhost[c.Name] = v
			ex.ghostTy[c.Name] = t
		}
	}
	li.entryState = ex.cur.clone()
	// 1. invariant holds on entry
	saved := ex.ghosts
	ex.ghosts = mergeGhosts(saved, entryGhost)
	for i, c := range li.spec.Clauses {
		if c.Kind != "invariant" {
			continue
		}
		g := ex.evalSpec(c.Expr, ex.envAt(ex.cur, li))
		ex.obligeUnder(entryReach, fmt.Sprintf("loop%d/inv%d/entry", li.ordinal, i), ex.tagsOf(c), g.T, li.header.Instrs[0].Pos(), c.Text)
	}
	for i, c := range ex.maintains() {
		g := ex.evalSpec(c.Expr, ex.envAt(ex.cur, li))
		ex.obligeUnder(entryReach, fmt.Sprintf("loop%d/maintains%d/entry", li.ordinal, i), ex.tagsOf(c), g.T, li.header.Instrs[0].Pos(), c.Text)
	}
	// 2. havoc
	cells, heaps := ex.modifiedIn(li)
	li.modCells, li.modHeaps = cells, heaps
	var cs []*ssa.Alloc
	for c := range cells {
		cs = append(cs, c)
	}
	sort.Slice(cs, func(i, j int) bool { return cs[i].Name() < cs[j].Name() })
	for _, c := range cs {
		old, ok := ex.cur.cells[c]
		if !ok {
			continue // allocated inside the loop
		}
		if old.T == nil {
			ex.fail("loop modifies non-scalar cell %s", c.Comment)
			continue
		}
		nv := ex.freshVal(cellHint(c)+"@loop", old.Ty)
		ex.cur.cells[c] = nv
	}
	preNext := ex.getHeap(ex.cur, "$nextref", SInt)
	preSeq := ex.getHeap(ex.cur, "$seq", SInt)
	var preTypeof *Term
	if heaps["$typeof"] {
		preTypeof = ex.getHeap(ex.cur, "$typeof", ArrS(SInt, SInt))
	}
	preTrlen := map[string]*Term{}
	preTr := map[string]*Term{}
	for tr := range ex.V.db.Traces {
		if heaps[tr] || heaps[tr+"len"] {
			heaps[tr], heaps[tr+"len"] = true, true
			ex.noteHeap(tr, ArrS(SInt, SEvent))
			ex.noteHeap(tr+"len", SInt)
			preTrlen[tr] = ex.getHeap(ex.cur, tr+"len", SInt)
			preTr[tr] = ex.getHeap(ex.cur, tr, ArrS(SInt, SEvent))
		}
	}
	if heaps["*heap"] {
		li.havocAll = true
		delete(heaps, "*heap")
		ex.havocAll(ex.cur)
	}
	var hs []string
	for h := range heaps {
		if li.havocAll && !strings.HasPrefix(h, "$") {
			continue
		}
		hs = append(hs, h)
	}
	sort.Strings(hs)
	li.lateHavoc = map[string]bool{}
	for _, h := range hs {
		s, ok := ex.heapSort[h]
		if !ok {
			ex.fail("internal: loop %d: sort of modified heap component %s unknown", li.ordinal, h)
			li.lateHavoc[h] = true
			continue
		}
		ex.getHeap(ex.cur, h, s) // materialise the entry-state constant
		ex.cur.heap[h] = ex.D.Fresh(h+"@loop", s)
	}
	// built-in monotonicity facts that every loop preserves
	headReach := ex.D.Fresh(fmt.Sprintf("r.loop%d", li.ordinal), SBool)
	ex.assume(Imp(headReach, entryReach))
	ex.reach[li.header] = headReach
	ex.pc = headReach
	li.headReach = headReach
	if heaps["$nextref"] {
		ex.assume(Ge(ex.getHeap(ex.cur, "$nextref", SInt), preNext))
	}
	if heaps["$seq"] {
		ex.assume(Ge(ex.getHeap(ex.cur, "$seq", SInt), preSeq))
	}
	if preTypeof != nil {
		// type tags of objects that existed before the loop never change
		r := BV("r!ty", SInt)
		ct := ex.getHeap(ex.cur, "$typeof", ArrS(SInt, SInt))
		ex.assume(Forall([]BVar{{"r!ty", SInt}}, Imp(Lt(r, preNext), Eq(Select(ct, r), Select(preTypeof, r)))))
		ex.assume(Forall([]BVar{{"r!ty", SInt}}, Imp(Ge(r, ex.getHeap(ex.cur, "$nextref", SInt)), Eq(Select(ct, r), IntLit(0)))))
		if as := ex.V.mayAllocBlocks(li.blocks); !as.unknown {
			ex.assume(Forall([]BVar{{"r!ty", SInt}}, Imp(Ge(r, preNext), as.tagIn(Select(ct, r)))))
		}
	}
	for tr, pl := range preTrlen {
		nl := ex.getHeap(ex.cur, tr+"len", SInt)
		ex.assume(Ge(nl, pl))
		k := BV("k!t", SInt)
		ex.assume(Forall([]BVar{{"k!t", SInt}}, Imp(And(Le(IntLit(0), k), Lt(k, pl)),
			Eq(Select(ex.getHeap(ex.cur, tr, ArrS(SInt, SEvent)), k), Select(preTr[tr], k)))))
	}
	// the SSA range counter only ever counts up from -1
	if a := ex.rangeIndexOf(li); a != nil {
		if v, ok := ex.cur.cells[a]; ok && v.T != nil {
			ex.assume(Ge(v.T, IntLit(-1)))
		}
	}
	// havoc ghost loop variables
	for name, v := range entryGhost {
		li.ghosts[name] = ex.freshVal("g."+name, v.Ty)
	}
	ex.ghosts = mergeGhosts(saved, li.ghosts)
	// 3. assume invariant
	for _, c := range li.spec.Clauses {
		if c.Kind != "invariant" {
			continue
		}
		g := ex.evalSpec(c.Expr, ex.envAt(ex.cur, li))
		ex.assumeHere(g.T)
	}
	for _, c := range ex.maintains() {
		g := ex.evalSpec(c.Expr, ex.envAt(ex.cur, li))
		ex.assumeHere(g.T)
	}
	for _, c := range li.spec.Clauses {
		if c.Kind == "decreases" {
			m := ex.evalSpec(c.Expr, ex.envAt(ex.cur, li))
			li.measure = ex.named("measure", m.T)
		}
	}
	li.headState = ex.cur.clone()
}

func mergeGhosts(a, b map[string]Val) map[string]Val {
	r := map[string]Val{}
	for k, v := range a {
		r[k] = v
	}
	for k, v := range b {
		r[k] = v
	}
	return r
}

func (ex *Exec) maintains() []*Clause {
	var out []*Clause
	if ex.spec == nil {
		return nil
	}
	for _, c := range ex.spec.Clauses {
		if c.Kind == "maintains" {
			out = append(out, c)
		}
	}
	return out
}

func (ex *Exec) tagsOf(c *Clause) []string {
	if len(c.Tags) > 0 {
		return c.Tags
	}
	return ex.spec.Props
}

// backEdge: the invariant must be re-established at the source of a back edge.
func (ex *Exec) backEdge(li *loopInfo, from *ssa.BasicBlock) {
	st := ex.outState[from]
	cond := ex.edgeCond(from, li.header)
	ex.checkHavocComplete(li, st)
	saved := ex.ghosts
	// ghost step
	stepped := map[string]Val{}
	for k, v := range li.ghosts {
		stepped[k] = v
	}
	ex.ghosts = mergeGhosts(saved, li.ghosts)
	for _, c := range li.spec.Clauses {
		if c.Kind == "step" {
			v := ex.evalSpec(c.Expr, ex.envAt(st, li))
			v.Ty = ex.ghostTy[c.Name]
			stepped[c.Name] = v
		}
	}
	ex.ghosts = mergeGhosts(saved, stepped)
	pos := from.Instrs[len(from.Instrs)-1].Pos()
	for i, c := range li.spec.Clauses {
		if c.Kind != "invariant" {
			continue
		}
		g := ex.evalSpec(c.Expr, ex.envAt(st, li))
		ex.obligeUnder(cond, fmt.Sprintf("loop%d/inv%d/preserved", li.ordinal, i), ex.tagsOf(c), g.T, pos, c.Text)
	}
	for i, c := range ex.maintains() {
		g := ex.evalSpec(c.Expr, ex.envAt(st, li))
		ex.obligeUnder(cond, fmt.Sprintf("loop%d/maintains%d/preserved", li.ordinal, i), ex.tagsOf(c), g.T, pos, c.Text)
	}
	for _, c := range li.spec.Clauses {
		if c.Kind == "decreases" {
			m := ex.evalSpec(c.Expr, ex.envAt(st, li))
			ex.obligeUnder(cond, fmt.Sprintf("loop%d/decreases", li.ordinal), ex.tagsOf(c), And(Lt(m.T, li.measure), Ge(li.measure, IntLit(0))), pos, c.Text)
		}
	}
	ex.ghosts = saved
}

// checkHavocComplete: engine self-check that nothing outside the syntactic
// modified set changed during the loop body.
func (ex *Exec) checkHavocComplete(li *loopInfo, st *State) {
	for a, v := range st.cells {
		hv, ok := li.headState.cells[a]
		if !ok {
			continue
		}
		if (hv.T != v.T || hv.Loc != v.Loc) && !li.modCells[a] {
			ex.fail("internal: loop %d modifies cell %s outside the havoc set", li.ordinal, cellHint(a))
		}
	}
	for h, t := range st.heap {
		if li.havocAll && !strings.HasPrefix(h, "$") {
			continue
		}
		ht, ok := li.headState.heap[h]
		if !ok {
			ht = nil
		}
		if ht != t {
			if !li.modHeaps[h] {
				ex.fail("internal: loop %d modifies heap %s outside the havoc set", li.ordinal, h)
			} else if li.lateHavoc[h] && ht == nil {
				// first touched inside the loop: the header used the initial
				// value although the component is loop-modified
				ex.fail("internal: loop %d: heap %s first materialised inside the loop", li.ordinal, h)
			}
		}
	}
}
